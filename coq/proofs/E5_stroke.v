(* proofs/E5_stroke.v — strokes (C04): the dash array handed to the engine selects the same
   on-intervals as SVG prescribes, and painting the two pieces of a split shape composites like the
   stroked shape wherever the property claims it. *)
From Coq Require Import ZArith List Bool Ascii String Arith Lia Reals Lra.
From Pico Require Import Num PyStr Stroke Composite.
Import ListNotations.

(* ------------------------------------------------------------------ dashes *)
(* SVG: the dash list is cycled; dashes alternate on/off from the start of the pattern, across
   repetitions.  The k-th interval (k = 0, 1, ...) of the pattern: *)
Definition svg_dash {A} (dflt : A) (d : list A) (k : nat) : A * bool := (nth (k mod List.length d) d dflt, Nat.even k).
(* the engine (SkDashPathEffect, even-length array): the array is cycled, an interval is on iff its
   index inside the array is even *)
Definition engine_dash {A} (dflt : A) (a : list A) (k : nat) : A * bool :=
  (nth (k mod List.length a) a dflt, Nat.even (k mod List.length a)).

Lemma even_mod_even k n : n <> 0 -> Nat.even n = true -> Nat.even (k mod n) = Nat.even k.
Proof.
  intros Hn He. rewrite (Nat.div_mod k n Hn) at 2. rewrite Nat.even_add, Nat.even_mul, He. cbn [orb].
  destruct (Nat.even (k mod n)); reflexivity.
Qed.

Lemma nth_app_self {A} (dflt : A) (d : list A) j : j < 2 * List.length d -> d <> [] ->
  nth j (d ++ d) dflt = nth (j mod List.length d) d dflt.
Proof.
  intros Hj Hd. assert (Hn : List.length d <> 0) by (destruct d; [contradiction|discriminate]).
  destruct (Nat.lt_ge_cases j (List.length d)) as [H|H].
  - rewrite app_nth1 by exact H. rewrite Nat.mod_small by exact H. reflexivity.
  - rewrite app_nth2 by exact H. f_equal.
    replace j with ((j - List.length d) + 1 * List.length d) at 2 by lia.
    rewrite Nat.mod_add by exact Hn. rewrite Nat.mod_small by lia. reflexivity.
Qed.

Theorem dashes_select_same_intervals {A} (dflt : A) (d : list A) (k : nat) : d <> [] ->
  engine_dash dflt (normalize_dashes d) k = svg_dash dflt d k.
Proof.
  intro Hd. assert (Hn : List.length d <> 0) by (destruct d; [contradiction|discriminate]).
  unfold normalize_dashes, engine_dash, svg_dash. destruct (Nat.odd (List.length d)) eqn:Eo.
  - rewrite app_length. replace (List.length d + List.length d) with (2 * List.length d) by lia.
    assert (H2 : 2 * List.length d <> 0) by lia.
    f_equal.
    + rewrite nth_app_self; [|apply Nat.mod_upper_bound; exact H2|exact Hd].
      f_equal. rewrite Nat.mul_comm. rewrite Nat.mod_mul_r by lia.
      rewrite Nat.mul_comm, Nat.mod_add by exact Hn. apply Nat.mod_mod. exact Hn.
    + apply even_mod_even; [exact H2|]. rewrite Nat.even_mul. reflexivity.
  - f_equal. apply even_mod_even; [exact Hn|]. rewrite <- Nat.negb_odd, Eo. reflexivity.
Qed.

Theorem normalize_dashes_even {A} (d : list A) : Nat.even (List.length (normalize_dashes d)) = true.
Proof.
  unfold normalize_dashes. destruct (Nat.odd (List.length d)) eqn:E.
  - rewrite app_length. replace (List.length d + List.length d) with (2 * List.length d) by lia. rewrite Nat.even_mul. reflexivity.
  - rewrite <- Nat.negb_odd, E. reflexivity.
Qed.

(* ------------------------------------------------------------------ compositing of the two pieces *)
Local Open Scope R_scope.
(* an opaque colour painted with alpha a where the piece covers the point *)
Definition paint (covers : bool) (a : R) (r g b : R) : rgba := if covers then mk_rgba (a * r) (a * g) (a * b) a else transparent.

(* SVG: fill (with fill-opacity) then stroke (with stroke-opacity) on an isolated layer faded by opacity *)
Definition svg_stroked (inF inS : bool) (o fo so : R) (fr fg fb sr sg sb : R) : rgba :=
  comp (LGroup o [LLeaf (paint inF fo fr fg fb); LLeaf (paint inS so sr sg sb)]).
(* picosvg: two independent paths, the fill piece with opacity o*fo below the stroke piece with o*so *)
Definition pico_stroked (inF inS : bool) (o fo so : R) (fr fg fb sr sg sb : R) : rgba :=
  comp_list [LLeaf (paint inF (o * fo) fr fg fb); LLeaf (paint inS (o * so) sr sg sb)] transparent.

Lemma rgba_eq a b : cr a = cr b -> cg a = cg b -> cb a = cb b -> ca a = ca b -> a = b.
Proof. destruct a, b; cbn; intros; subst; reflexivity. Qed.

Theorem split_composites_like_stroked inF inS o fo so fr fg fb sr sg sb :
  o = 1 \/ inF = false \/ inS = false ->
  pico_stroked inF inS o fo so fr fg fb sr sg sb = svg_stroked inF inS o fo so fr fg fb sr sg sb.
Proof.
  intros H. unfold pico_stroked, svg_stroked, comp_list. cbn [fold_left comp].
  destruct inF, inS; cbn [paint]; unfold over, scale, transparent; cbn [cr cg cb ca];
    (destruct H as [->|[H|H]]; try discriminate H); apply rgba_eq; cbn [cr cg cb ca]; ring.
Qed.

(* outside the claimed scope the two differ: the known approximation of _stroke *)
Example split_differs_when_translucent_and_overlapping :
  pico_stroked true true (1/2) 1 1 1 0 0 0 0 1 <> svg_stroked true true (1/2) 1 1 1 0 0 0 0 1.
Proof.
  unfold pico_stroked, svg_stroked, comp_list. cbn [fold_left comp paint]. unfold over, scale, transparent. cbn [cr cg cb ca].
  intro H. apply (f_equal cr) in H. cbn [cr] in H. lra.
Qed.
