(* proofs/E4_arc.v — theorems about the generated arc -> cubic code (gen/G_arc.v) over R. *)
From Coq Require Import ZArith Reals Lra Lia List Bool String FunctionalExtensionality.
From Pico Require Import Num PyStr G_geom G_transform G_arc Arc E1_affine E4_bezier.
Import ListNotations.
Local Open Scope R_scope.

Notation EArc := (EllipticalArc ROps).
Notation CP := (CenterParametrization ROps).

Lemma of_dec_quarter : @eq R (of_dec ROps 25 (-2)) (/ 4).
Proof. cbn [of_dec ROps]. unfold Rpow10. change (powerRZ 10 (-2)) with (/ 10 ^ 2). field. Qed.
Lemma of_dec_half : @eq R (of_dec ROps 5 (-1)) (/ 2).
Proof. cbn [of_dec ROps]. unfold Rpow10. change (powerRZ 10 (-1)) with (/ 10 ^ 1). field. Qed.
Lemma of_dec_milli : @eq R (of_dec ROps 1 (-3)) (1 / 1000).
Proof. cbn [of_dec ROps]. unfold Rpow10. change (powerRZ 10 (-3)) with (/ 10 ^ 3). field. Qed.

(* ---------------------------------------------------------------- shape of the output *)
Lemma rflat_map_singletons {A B} (g : B -> A) (l : list B) :
  rflat_map (fun i => rcons (g i) (Ok [])) l = Ok (map g l).
Proof.
  induction l as [|b l IH]; cbn [rflat_map map]; [reflexivity|].
  rewrite IH. reflexivity.
Qed.

(* the transform from the unit-circle frame to user space, as the code builds it *)
Definition frame (arc : EArc) (ap : CP) : Aff :=
  Affine2D_scale ROps
    (Affine2D_rotate ROps RMath
       (Affine2D_translate ROps ident (Point_x (CenterParametrization_center_point ap))
                                      (Point_y (CenterParametrization_center_point ap)))
       (EllipticalArc_rotation arc * (PI / 180)) 0 0)
    (EllipticalArc_rx arc) (Some (EllipticalArc_ry arc)).

Definition seg_count (ap : CP) : Z :=
  Rceil (Rabs (CenterParametrization_theta_arc ap / (/ 2 * PI + 1 / 1000))).

Definition seg_theta (ap : CP) (n i : Z) : R :=
  CenterParametrization_theta1 ap + IZR i * CenterParametrization_theta_arc ap / IZR n.

(* one emitted segment: two control points and the end point *)
Definition seg (arc : EArc) (ap : CP) (n i : Z) : Pt * Pt * Pt :=
  let Tr := frame arc ap in
  let th0 := seg_theta ap n i in
  let th1 := seg_theta ap n (i + 1) in
  let t := 4 / 3 * tan (/ 4 * (th1 - th0)) in
  (mapP Tr (mkP (cos th0 - t * sin th0) (sin th0 + t * cos th0)),
   mapP Tr (mkP (cos th1 + t * sin th1) (sin th1 + - t * cos th1)),
   if (i =? n - 1)%Z then EllipticalArc_end_point arc else mapP Tr (mkP (cos th1) (sin th1))).

(* the loop body and the segment count exactly as generated (constants still as decimal literals) *)
Definition seg_count_raw (ap : CP) : Z :=
  m_ceil RMath (pyabs (div ROps (CenterParametrization_theta_arc ap)
     (add ROps (mul ROps (of_dec ROps 5 (-1)) (m_pi RMath)) (of_dec ROps 1 (-3))))).

Lemma seg_count_raw_eq ap : seg_count_raw ap = seg_count ap.
Proof.
  unfold seg_count_raw, seg_count. rewrite pyabs_R. cbn [m_ceil m_pi RMath div add mul ROps].
  rewrite of_dec_half, of_dec_milli. reflexivity.
Qed.

Theorem arc_to_cubic_shape (arc0 : EArc) :
  let arc := EllipticalArc_correct_out_of_range_radii ROps RMath arc0 in
  _arc_to_cubic ROps RMath arc0 =
  match EllipticalArc_end_to_center_parametrization ROps RMath arc with
  | Err e => Err e
  | Ok ap => Ok (map (seg arc ap (seg_count ap)) (zrange (seg_count ap)))
  end.
Proof.
  intro arc. unfold _arc_to_cubic. fold arc.
  destruct (EllipticalArc_end_to_center_parametrization ROps RMath arc) as [ap|e]; [|reflexivity].
  fold (seg_count_raw ap). rewrite seg_count_raw_eq.
  match goal with |- rbind_app (rflat_map ?f ?l) _ = _ =>
    replace (rflat_map f l) with (Ok (map (seg arc ap (seg_count ap)) l)) end.
  { cbn [rbind_app rapp]. rewrite app_nil_r. reflexivity. }
  symmetry. rewrite <- rflat_map_singletons.
  f_equal.
  apply FunctionalExtensionality.functional_extensionality. intro i.
  unfold seg, seg_theta, frame. cbn [m_tan m_sin m_cos m_pi RMath add sub mul div opp of_Z ROps].
  rewrite of_dec_quarter. rewrite plus_IZR. reflexivity.
Qed.

(* ---------------------------------------------------------------- segment count and angle *)
Lemma seg_angle_max_eq : / 2 * PI + 1 / 1000 = seg_angle_max.
Proof. unfold seg_angle_max. field. Qed.

Lemma seg_angle_max_pos : 0 < seg_angle_max.
Proof. unfold seg_angle_max. pose proof PI_RGT_0. lra. Qed.

Lemma seg_angle_bound (ap : CP) :
  let n := seg_count ap in
  (1 <= n)%Z -> Rabs (CenterParametrization_theta_arc ap / IZR n) <= seg_angle_max.
Proof.
  intros n Hn. unfold n, seg_count in *. rewrite seg_angle_max_eq in *.
  set (th := CenterParametrization_theta_arc ap) in *.
  pose proof seg_angle_max_pos as Hm.
  pose proof (Rceil_spec (Rabs (th / seg_angle_max))) as [_ Hc].
  set (k := Rceil (Rabs (th / seg_angle_max))) in *.
  assert (Hk : 1 <= IZR k) by (apply IZR_le in Hn; exact Hn).
  unfold Rdiv in *. rewrite Rabs_mult in *. rewrite (Rabs_pos_eq (/ seg_angle_max)) in Hc by (left; apply Rinv_0_lt_compat; exact Hm).
  rewrite (Rabs_pos_eq (/ IZR k)) by (left; apply Rinv_0_lt_compat; lra).
  (* |th| / M <= k  ->  |th| / k <= M *)
  apply (Rmult_le_compat_r seg_angle_max) in Hc; [|lra].
  rewrite Rmult_assoc, Rinv_l, Rmult_1_r in Hc by lra.
  apply (Rmult_le_reg_r (IZR k)); [lra|].
  rewrite Rmult_assoc, Rinv_l, Rmult_1_r by lra. lra.
Qed.

(* a proper arc (theta_arc <> 0) gets at least one segment *)
Lemma seg_count_pos (ap : CP) :
  CenterParametrization_theta_arc ap <> 0 -> (1 <= seg_count ap)%Z.
Proof.
  intro Hne. unfold seg_count. rewrite seg_angle_max_eq.
  pose proof seg_angle_max_pos as Hm.
  pose proof (Rceil_spec (Rabs (CenterParametrization_theta_arc ap / seg_angle_max))) as [_ Hc].
  assert (0 < Rabs (CenterParametrization_theta_arc ap / seg_angle_max)).
  { apply Rabs_pos_lt. unfold Rdiv. apply Rmult_integral_contrapositive_currified; [exact Hne|].
    apply Rinv_neq_0_compat. lra. }
  assert (0 < IZR (Rceil (Rabs (CenterParametrization_theta_arc ap / seg_angle_max)))) by lra.
  apply lt_IZR in H0. lia.
Qed.

(* ---------------------------------------------------------------- Bezier points and affine maps *)
Definition bezP (p0 p1 p2 p3 : Pt) (s : R) : Pt :=
  mkP (bez1 (Point_x p0) (Point_x p1) (Point_x p2) (Point_x p3) s)
      (bez1 (Point_y p0) (Point_y p1) (Point_y p2) (Point_y p3) s).

Lemma bez_affine (A : Aff) p0 p1 p2 p3 s :
  bezP (mapP A p0) (mapP A p1) (mapP A p2) (mapP A p3) s = mapP A (bezP p0 p1 p2 p3 s).
Proof.
  destruct A, p0, p1, p2, p3. unfold bezP, bez1. runfold. apply point_eq; ring.
Qed.

(* consecutive segment angles chain: the end angle of segment i is the start angle of i+1,
   and every segment spans theta_arc / n *)
Lemma seg_theta_step (ap : CP) n i :
  IZR n <> 0 ->
  seg_theta ap n (i + 1) - seg_theta ap n i = CenterParametrization_theta_arc ap / IZR n.
Proof. intro Hn. unfold seg_theta. rewrite plus_IZR. field. exact Hn. Qed.

Lemma seg_theta_last (ap : CP) n :
  IZR n <> 0 ->
  seg_theta ap n (n - 1 + 1) = CenterParametrization_theta1 ap + CenterParametrization_theta_arc ap.
Proof. intro Hn. unfold seg_theta. replace (n - 1 + 1)%Z with n by lia. field. exact Hn. Qed.

(* (e) accuracy: every point of every emitted cubic is the frame image of a point whose distance
   from the origin lies in [1, 1.0003]: the cubic lies between the (corrected) ellipse and the same
   ellipse enlarged by 0.03 % about its centre.  The cubic of segment i starts where segment i-1
   ended (the frame image of the unit-circle point at seg_theta i). *)
Theorem segment_tracks_ellipse (arc : EArc) (ap : CP) i s :
  let n := seg_count ap in
  (1 <= n)%Z -> 0 <= s <= 1 ->
  let Tr := frame arc ap in
  let th0 := seg_theta ap n i in
  let th1 := seg_theta ap n (i + 1) in
  let c := seg arc ap n i in
  exists q,
    bezP (mapP Tr (mkP (cos th0) (sin th0))) (fst (fst c)) (snd (fst c)) (mapP Tr (mkP (cos th1) (sin th1))) s
      = mapP Tr q /\
    1 <= Point_x q ^ 2 + Point_y q ^ 2 <= (1 + 3 / 10000) ^ 2.
Proof.
  intros n Hn Hs Tr th0 th1 c.
  assert (Hn0 : IZR n <> 0) by (apply IZR_le in Hn; lra).
  set (d := CenterParametrization_theta_arc ap / IZR n).
  assert (Hd : th1 - th0 = d) by (apply seg_theta_step; exact Hn0).
  assert (Hth1 : th1 = th0 + d) by lra.
  exists (mkP (arcX th0 d s) (arcY th0 d s)). split.
  - unfold c, seg. cbn [fst snd]. fold Tr th0 th1. rewrite bez_affine. f_equal.
    rewrite Hd. unfold bezP, arcX, arcY. cbn [Point_x Point_y]. rewrite <- Hth1.
    replace (/ 4 * d) with (d / 4) by field.
    apply point_eq; unfold bez1; ring.
  - cbn [Point_x Point_y]. apply unit_arc_radial_error; [|exact Hs].
    unfold d. apply seg_angle_bound. exact Hn.
Qed.

(* (f) the last emitted end point is exactly the given end point; other end points are the frame
   image of the unit-circle point at the next start angle *)
Lemma seg_end_last (arc : EArc) (ap : CP) n :
  snd (seg arc ap n (n - 1)) = EllipticalArc_end_point arc.
Proof. unfold seg. cbn [snd]. rewrite Z.eqb_refl. reflexivity. Qed.

Lemma seg_end_inner (arc : EArc) (ap : CP) n i :
  (i <> n - 1)%Z ->
  snd (seg arc ap n i) = mapP (frame arc ap) (mkP (cos (seg_theta ap n (i + 1))) (sin (seg_theta ap n (i + 1)))).
Proof. intro H. unfold seg. cbn [snd]. apply Z.eqb_neq in H. rewrite H. reflexivity. Qed.

(* ---------------------------------------------------------------- degenerate arcs (wrapper) *)
Lemma truthy_abs x : @truthy ROps (@pyabs ROps x) = negb (Reqb x 0).
Proof.
  rewrite pyabs_R. unfold truthy. cbn [eqb ROps zero]. f_equal.
  unfold Reqb. destruct (Req_EM_T x 0) as [->|Hx].
  - rewrite Rabs_R0. destruct (Req_EM_T 0 0); [reflexivity|contradiction].
  - destruct (Req_EM_T (Rabs x) 0) as [H0|H0]; [|reflexivity].
    exfalso. revert H0. apply Rabs_no_R0. exact Hx.
Qed.

Lemma straight_line_iff (arc : EArc) :
  EllipticalArc_is_straight_line ROps arc = true <-> EllipticalArc_rx arc = 0 \/ EllipticalArc_ry arc = 0.
Proof.
  unfold EllipticalArc_is_straight_line. rewrite !truthy_abs.
  destruct (Reqb (EllipticalArc_rx arc) 0) eqn:E1; destruct (Reqb (EllipticalArc_ry arc) 0) eqn:E2; cbn [negb andb].
  - apply Reqb_true in E1. tauto.
  - apply Reqb_true in E1. tauto.
  - apply Reqb_true in E2. tauto.
  - apply Reqb_false in E1. apply Reqb_false in E2. split; [discriminate|tauto].
Qed.

Theorem zero_radius_gives_line start rx ry rot large sweep endp :
  (rx = 0 \/ ry = 0) -> Point_eqb ROps endp start = false ->
  arc_to_cubic RMath start rx ry rot large sweep endp = Ok [(None, None, endp)].
Proof.
  intros Hr Hne. unfold arc_to_cubic. unfold EllipticalArc_is_zero_length. cbn [EllipticalArc_end_point EllipticalArc_start_point].
  rewrite Hne.
  assert (E : EllipticalArc_is_straight_line ROps (mk_EllipticalArc ROps start rx ry rot large sweep endp) = true).
  { apply straight_line_iff. exact Hr. }
  rewrite E. reflexivity.
Qed.

Theorem coincident_endpoints_give_nothing start rx ry rot large sweep endp :
  Point_eqb ROps endp start = true ->
  arc_to_cubic RMath start rx ry rot large sweep endp = Ok [].
Proof.
  intro He. unfold arc_to_cubic, EllipticalArc_is_zero_length. cbn [EllipticalArc_end_point EllipticalArc_start_point].
  rewrite He. reflexivity.
Qed.

(* ---------------------------------------------------------------- (a) radius correction *)
(* the chord midpoint vector in the ellipse's axis frame, as the code computes it *)
Definition mid_in_frame (arc : EArc) : Vector ROps :=
  Affine2D_map_vector ROps
    (Affine2D_rotate ROps RMath ident (- (EllipticalArc_rotation arc * (PI / 180))) 0 0)
    (Vector___mul__ ROps (Point__sub_pt ROps (EllipticalArc_start_point arc) (EllipticalArc_end_point arc)) (/ 2)).

Definition lam (rx ry : R) (v : Vector ROps) : R :=
  Vector_x v * Vector_x v / (rx * rx) + Vector_y v * Vector_y v / (ry * ry).

Theorem radii_correction (arc : EArc) :
  EllipticalArc_is_straight_line ROps arc = false ->
  EllipticalArc_is_zero_length ROps arc = false ->
  let arc' := EllipticalArc_correct_out_of_range_radii ROps RMath arc in
  let L := lam (Rabs (EllipticalArc_rx arc)) (Rabs (EllipticalArc_ry arc)) (mid_in_frame arc) in
  0 < EllipticalArc_rx arc' /\ 0 < EllipticalArc_ry arc' /\
  (L <= 1 -> EllipticalArc_rx arc' = Rabs (EllipticalArc_rx arc) /\ EllipticalArc_ry arc' = Rabs (EllipticalArc_ry arc)) /\
  (1 < L -> EllipticalArc_rx arc' = Rabs (EllipticalArc_rx arc) * sqrt L /\
            EllipticalArc_ry arc' = Rabs (EllipticalArc_ry arc) * sqrt L /\
            lam (EllipticalArc_rx arc') (EllipticalArc_ry arc') (mid_in_frame arc) = 1) /\
  EllipticalArc_start_point arc' = EllipticalArc_start_point arc /\
  EllipticalArc_end_point arc' = EllipticalArc_end_point arc /\
  EllipticalArc_rotation arc' = EllipticalArc_rotation arc /\
  EllipticalArc_large arc' = EllipticalArc_large arc /\ EllipticalArc_sweep arc' = EllipticalArc_sweep arc.
Proof.
  intros Hs Hz arc' L.
  assert (Hr : EllipticalArc_rx arc <> 0 /\ EllipticalArc_ry arc <> 0).
  { split; intro H0; assert (EllipticalArc_is_straight_line ROps arc = true) by (apply straight_line_iff; tauto); congruence. }
  destruct Hr as [Hrx Hry].
  assert (Hax : 0 < Rabs (EllipticalArc_rx arc)) by (apply Rabs_pos_lt; exact Hrx).
  assert (Hay : 0 < Rabs (EllipticalArc_ry arc)) by (apply Rabs_pos_lt; exact Hry).
  unfold arc', EllipticalArc_correct_out_of_range_radii. rewrite Hs, Hz. cbn [orb].
  rewrite !pyabs_R. rewrite of_dec_half.
  cbn [m_pi m_sqrt RMath add sub mul div opp of_Z ltb ROps].
  fold (mid_in_frame arc). fold (lam (Rabs (EllipticalArc_rx arc)) (Rabs (EllipticalArc_ry arc)) (mid_in_frame arc)).
  fold L.
  destruct (Rltb 1 L) eqn:E.
  - apply Rltb_true in E. cbn [EllipticalArc_rx EllipticalArc_ry EllipticalArc_start_point EllipticalArc_end_point
        EllipticalArc_rotation EllipticalArc_large EllipticalArc_sweep].
    assert (0 < sqrt L) by (apply sqrt_lt_R0; lra).
    repeat split; try nra; try lra.
    set (a := Rabs (EllipticalArc_rx arc)) in *. set (b := Rabs (EllipticalArc_ry arc)) in *.
    assert (HL : L = Vector_x (mid_in_frame arc) * Vector_x (mid_in_frame arc) / (a * a)
                   + Vector_y (mid_in_frame arc) * Vector_y (mid_in_frame arc) / (b * b)) by reflexivity.
    unfold lam.
    set (vx := Vector_x (mid_in_frame arc)) in *. set (vy := Vector_y (mid_in_frame arc)) in *.
    replace (a * sqrt L * (a * sqrt L)) with (a * a * (sqrt L * sqrt L)) by ring.
    replace (b * sqrt L * (b * sqrt L)) with (b * b * (sqrt L * sqrt L)) by ring.
    rewrite sqrt_sqrt by lra.
    replace (vx * vx / (a * a * L) + vy * vy / (b * b * L)) with ((vx * vx / (a * a) + vy * vy / (b * b)) / L)
      by (field; repeat split; lra).
    rewrite <- HL. field. lra.
  - apply Rltb_false in E. cbn [EllipticalArc_rx EllipticalArc_ry EllipticalArc_start_point EllipticalArc_end_point
        EllipticalArc_rotation EllipticalArc_large EllipticalArc_sweep].
    repeat split; try assumption; try lra.
Qed.
