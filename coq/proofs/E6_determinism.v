(* proofs/E6_determinism.v — the logic part of C16: memoisation under the clear-before-use
   discipline is invisible, and _inherit_attrib does not depend on the order of the attribute map. *)
From Coq Require Import ZArith List Bool Ascii String Permutation Lia.
From Pico Require Import Num PyStr Lex G_inherit Inherit Memo.
Import ListNotations.

Section MemoSound.
  Variables K V : Type.
  Variable keq : K -> K -> bool.
  Hypothesis keq_spec : forall a b, keq a b = true <-> a = b.

  Theorem memo_invisible es : forall c, disciplined K V keq es c -> fst (run K V keq es c) = run_direct K V es.
  Proof.
    induction es as [|e r IH]; intros c Hd; cbn [run run_direct]; [reflexivity|].
    destruct e as [|f k].
    - apply IH. exact Hd.
    - destruct Hd as [Hc Hd]. unfold call in *.
      destruct (lookup K V keq c k) as [v|] eqn:E.
      + cbn [snd] in Hd. specialize (IH c Hd). destruct (run K V keq r c) as [vs c'']. cbn [fst] in *.
        rewrite (Hc k v E), IH. reflexivity.
      + cbn [snd] in Hd. specialize (IH _ Hd). destruct (run K V keq r ((k, f k) :: c)) as [vs c'']. cbn [fst] in *.
        rewrite IH. reflexivity.
  Qed.

  (* a history in which every phase starts with a clear and uses a single function is disciplined:
     this is the shape of _update_etree (cache_clear, then one query per cached element) *)
  Definition phase (f : K -> V) (ks : list K) : list (event K V) := map (Call K V f) ks.
  Lemma disciplined_call f k r c :
    disciplined K V keq (Call K V f k :: r) c = (coherent_with K V keq c f /\ disciplined K V keq r (snd (call K V keq f c k))).
  Proof. reflexivity. Qed.
  Fixpoint phases (ps : list ((K -> V) * list K)) : list (event K V) :=
    match ps with [] => [] | (f, ks) :: r => Clear K V :: phase f ks ++ phases r end.

  Lemma coherent_call f c k : coherent_with K V keq c f -> coherent_with K V keq (snd (call K V keq f c k)) f.
  Proof.
    intros Hc. unfold call. destruct (lookup K V keq c k) eqn:E; cbn [snd]; [exact Hc|].
    intros k' v'. cbn [lookup]. destruct (keq k' k) eqn:Ek; [|apply Hc].
    intro H. injection H as <-. apply keq_spec in Ek. subst. reflexivity.
  Qed.

  Lemma phase_disciplined f ks rest : forall c, coherent_with K V keq c f ->
    (forall c', disciplined K V keq rest c') -> disciplined K V keq (phase f ks ++ rest) c.
  Proof.
    unfold phase. induction ks as [|k r IH]; intros c Hc Hrest; cbn [map app]; [apply Hrest|].
    rewrite disciplined_call. split; [exact Hc|]. apply IH; [apply coherent_call; exact Hc|exact Hrest].
  Qed.

  Theorem phases_disciplined ps : forall c, disciplined K V keq (phases ps) c.
  Proof.
    induction ps as [|[f ks] r IH]; intro c; cbn [phases]; [exact I|].
    change (disciplined K V keq (phase f ks ++ phases r) []).
    apply phase_disciplined; [intros k v H; discriminate|exact IH].
  Qed.

  Corollary clear_before_use_is_invisible ps c : fst (run K V keq (phases ps) c) = run_direct K V (phases ps).
  Proof. apply memo_invisible. apply phases_disciplined. Qed.
End MemoSound.

(* ------------------------------------------------------------------ sorted iteration *)
Local Open Scope string_scope.

Lemma ltb_irrefl n : Nat.ltb n n = false. Proof. apply Nat.ltb_irrefl. Qed.

Lemma str_leb_refl a : str_leb a a = true.
Proof. induction a as [|c r IH]; cbn [str_leb]; [reflexivity|]. rewrite ltb_irrefl. exact IH. Qed.

Lemma str_leb_total a : forall b, str_leb a b = true \/ str_leb b a = true.
Proof.
  induction a as [|x a IH]; intros [|y b]; cbn [str_leb]; auto.
  destruct (Nat.ltb (nat_of_ascii x) (nat_of_ascii y)) eqn:E1; [auto|].
  destruct (Nat.ltb (nat_of_ascii y) (nat_of_ascii x)) eqn:E2; [auto|]. apply IH.
Qed.

Lemma str_leb_antisym a : forall b, str_leb a b = true -> str_leb b a = true -> a = b.
Proof.
  induction a as [|x a IH]; intros [|y b]; cbn [str_leb]; try discriminate; [reflexivity|].
  destruct (Nat.ltb (nat_of_ascii x) (nat_of_ascii y)) eqn:E1; destruct (Nat.ltb (nat_of_ascii y) (nat_of_ascii x)) eqn:E2;
    try discriminate.
  - apply Nat.ltb_lt in E1, E2. lia.
  - intros H1 H2. apply Nat.ltb_ge in E1, E2. assert (nat_of_ascii x = nat_of_ascii y) by lia.
    assert (x = y) by (rewrite <- (ascii_nat_embedding x), <- (ascii_nat_embedding y); congruence).
    subst. f_equal. apply IH; assumption.
Qed.

Lemma str_leb_trans a : forall b c, str_leb a b = true -> str_leb b c = true -> str_leb a c = true.
Proof.
  induction a as [|x a IH]; intros [|y b] [|z c]; cbn [str_leb]; try discriminate; try reflexivity.
  destruct (Nat.ltb (nat_of_ascii x) (nat_of_ascii y)) eqn:E1.
  - intros _. destruct (Nat.ltb (nat_of_ascii y) (nat_of_ascii z)) eqn:E2.
    + intros _. apply Nat.ltb_lt in E1, E2. assert (H : Nat.ltb (nat_of_ascii x) (nat_of_ascii z) = true) by (apply Nat.ltb_lt; lia). rewrite H. reflexivity.
    + destruct (Nat.ltb (nat_of_ascii z) (nat_of_ascii y)) eqn:E3; [discriminate|]. intros _.
      apply Nat.ltb_lt in E1. apply Nat.ltb_ge in E2, E3. assert (H : Nat.ltb (nat_of_ascii x) (nat_of_ascii z) = true) by (apply Nat.ltb_lt; lia). rewrite H. reflexivity.
  - destruct (Nat.ltb (nat_of_ascii y) (nat_of_ascii x)) eqn:E2; [discriminate|]. intro Hab.
    destruct (Nat.ltb (nat_of_ascii y) (nat_of_ascii z)) eqn:E3.
    + intros _. apply Nat.ltb_ge in E1, E2. apply Nat.ltb_lt in E3. assert (H : Nat.ltb (nat_of_ascii x) (nat_of_ascii z) = true) by (apply Nat.ltb_lt; lia). rewrite H. reflexivity.
    + destruct (Nat.ltb (nat_of_ascii z) (nat_of_ascii y)) eqn:E4; [discriminate|]. intro Hbc.
      apply Nat.ltb_ge in E1, E2, E3, E4.
      assert (H1 : Nat.ltb (nat_of_ascii x) (nat_of_ascii z) = false) by (apply Nat.ltb_ge; lia).
      assert (H2 : Nat.ltb (nat_of_ascii z) (nat_of_ascii x) = false) by (apply Nat.ltb_ge; lia).
      rewrite H1, H2. eapply IH; eassumption.
Qed.

Inductive sorted : list string -> Prop :=
| sorted_nil : sorted []
| sorted_one x : sorted [x]
| sorted_cons x y l : str_leb x y = true -> sorted (y :: l) -> sorted (x :: y :: l).

Lemma insert_sorted_sorted s l : sorted l -> sorted (insert_sorted s l).
Proof.
  induction 1 as [|x|x y l Hxy Hs IH]; cbn [insert_sorted].
  - constructor.
  - destruct (str_leb s x) eqn:E; [constructor; [exact E|constructor]|].
    destruct (str_leb_total s x) as [H|H]; [congruence|]. constructor; [exact H|constructor].
  - destruct (str_leb s x) eqn:E; [constructor; [exact E|constructor; assumption]|].
    destruct (str_leb_total s x) as [H|H]; [congruence|].
    cbn [insert_sorted] in IH. destruct (str_leb s y) eqn:E2.
    + constructor; [exact H|]. exact IH.
    + constructor; [exact Hxy|]. exact IH.
Qed.

Lemma sort_strings_sorted l : sorted (sort_strings l).
Proof. induction l as [|x r IH]; cbn [sort_strings fold_right]; [constructor|]. apply insert_sorted_sorted. exact IH. Qed.

Lemma insert_sorted_perm s l : Permutation (s :: l) (insert_sorted s l).
Proof.
  induction l as [|h t IH]; cbn [insert_sorted]; [reflexivity|].
  destruct (str_leb s h); [reflexivity|]. rewrite perm_swap. constructor. exact IH.
Qed.

Lemma sort_strings_perm l : Permutation l (sort_strings l).
Proof.
  induction l as [|x r IH]; cbn [sort_strings fold_right]; [constructor|].
  rewrite <- insert_sorted_perm. constructor. exact IH.
Qed.

Lemma sorted_head_min x l : sorted (x :: l) -> forall y, In y l -> str_leb x y = true.
Proof.
  revert x. induction l as [|h t IH]; intros x Hs y Hy; [contradiction|].
  inversion Hs as [| |? ? ? Hxh Hs']; subst. destruct Hy as [->|Hy]; [exact Hxh|].
  eapply str_leb_trans; [exact Hxh|]. apply IH; assumption.
Qed.

Lemma sorted_tail x l : sorted (x :: l) -> sorted l.
Proof. intro H. inversion H; subst; [constructor|assumption]. Qed.

Lemma sorted_perm_eq l1 : forall l2, sorted l1 -> sorted l2 -> Permutation l1 l2 -> l1 = l2.
Proof.
  induction l1 as [|x l1 IH]; intros l2 H1 H2 Hp.
  - apply Permutation_nil in Hp. subst. reflexivity.
  - destruct l2 as [|y l2]; [apply Permutation_sym, Permutation_nil in Hp; discriminate|].
    assert (Hxy : x = y).
    { assert (Hx : In x (y :: l2)) by (eapply Permutation_in; [exact Hp|left; reflexivity]).
      assert (Hy : In y (x :: l1)) by (eapply Permutation_in; [apply Permutation_sym; exact Hp|left; reflexivity]).
      destruct Hx as [->|Hx]; [reflexivity|]. destruct Hy as [->|Hy]; [reflexivity|].
      apply str_leb_antisym; [apply (sorted_head_min x l1 H1 y Hy)|apply (sorted_head_min y l2 H2 x Hx)]. }
    subst y. f_equal. apply IH; [eapply sorted_tail; eassumption|eapply sorted_tail; eassumption|].
    eapply Permutation_cons_inv. exact Hp.
Qed.

Theorem sort_strings_order_free l1 l2 : Permutation l1 l2 -> sort_strings l1 = sort_strings l2.
Proof.
  intro Hp. apply sorted_perm_eq; try apply sort_strings_sorted.
  rewrite <- (sort_strings_perm l1), <- (sort_strings_perm l2). exact Hp.
Qed.

(* lookups in a map with distinct keys do not depend on the order of its entries *)
Section OrderFree.
  Context {N : NumOps}.
  Lemma aget_perm (m1 m2 : @amap N) k : NoDup (map fst m1) -> Permutation m1 m2 -> aget m1 k = aget m2 k.
  Proof.
    intros Hnd Hp. induction Hp as [|[k0 v0] l l' Hp IH|[k1 v1] [k2 v2] l|l l' l'' Hp1 IH1 Hp2 IH2].
    - reflexivity.
    - unfold aget in *. cbn [find fst]. destruct (k0 =? k)%string; [reflexivity|]. apply IH. inversion Hnd; assumption.
    - unfold aget. cbn [find fst]. destruct (k2 =? k)%string eqn:E2; destruct (k1 =? k)%string eqn:E1; try reflexivity.
      apply String.eqb_eq in E1, E2. subst. inversion Hnd as [|? ? Hin _]. exfalso. apply Hin. left. reflexivity.
    - rewrite IH1 by exact Hnd. apply IH2. eapply Permutation_NoDup; [apply Permutation_map; exact Hp1|exact Hnd].
  Qed.

  Lemma inherit_one_ext h (m1 m2 child : @amap N) name :
    (forall k, aget m1 k = aget m2 k) -> inherit_one h m1 child name = inherit_one h m2 child name.
  Proof. intro H. unfold inherit_one, ahas. destruct h; rewrite ?H; reflexivity. Qed.

  Lemma inherit_loop_ext tag skips (m1 m2 : @amap N) keys : forall child,
    (forall k, aget m1 k = aget m2 k) -> inherit_loop tag skips m1 child keys = inherit_loop tag skips m2 child keys.
  Proof.
    intros child H. revert child. induction keys as [|k r IH]; intro child; cbn [inherit_loop]; [reflexivity|].
    destruct (str_in k skips || negb (attr_supported tag k)); [apply IH|].
    destruct (handler_of k) as [h|]; [|rewrite IH; reflexivity].
    rewrite (inherit_one_ext h m1 m2 child k H). destruct (inherit_one h m2 child k); [apply IH|reflexivity].
  Qed.

  (* _inherit_attrib iterates sorted(attrib.keys()): the result does not depend on the order in which
     the parent's attributes are stored (dict insertion order, XML attribute order) *)
  Theorem inherit_attrib_order_free (m1 m2 : @amap N) tag child su skips :
    NoDup (map fst m1) -> Permutation m1 m2 ->
    inherit_attrib m1 tag child su skips = inherit_attrib m2 tag child su skips.
  Proof.
    intros Hnd Hp. unfold inherit_attrib.
    rewrite (sort_strings_order_free (map fst m1) (map fst m2)) by (apply Permutation_map; exact Hp).
    rewrite (inherit_loop_ext tag skips m1 m2 _ child (fun k => aget_perm m1 m2 k Hnd Hp)). reflexivity.
  Qed.
End OrderFree.
