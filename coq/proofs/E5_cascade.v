(* proofs/E5_cascade.v — (i) compositing algebra behind group flattening; (ii) the inherited
   context computed by _attrib_to_pass_on is the SVG cascade for copied properties (C05). *)
From Coq Require Import ZArith Reals Lra List Bool Ascii String.
From Pico Require Import Num PyStr Lex G_inherit Inherit Composite.
Import ListNotations.
Local Open Scope R_scope.

Lemma rgba_eq a b c d a' b' c' d' : a = a' -> b = b' -> c = c' -> d = d' -> mk_rgba a b c d = mk_rgba a' b' c' d'.
Proof. intros; subst; reflexivity. Qed.

Lemma over_assoc (x y z : rgba) : over x (over y z) = over (over x y) z.
Proof. destruct x, y, z. unfold over; cbn. apply rgba_eq; ring. Qed.
Lemma over_transparent_l c : over transparent c = c.
Proof. destruct c. unfold over, transparent; cbn. apply rgba_eq; ring. Qed.
Lemma over_transparent_r c : over c transparent = c.
Proof. destruct c. unfold over, transparent; cbn. apply rgba_eq; ring. Qed.
Lemma scale_1 c : scale 1 c = c.
Proof. destruct c. unfold scale; cbn. apply rgba_eq; ring. Qed.
Lemma scale_0 c : scale 0 c = transparent.
Proof. destruct c. unfold scale, transparent; cbn. apply rgba_eq; ring. Qed.
Lemma scale_scale a b c : scale a (scale b c) = scale (a * b) c.
Proof. destruct c. unfold scale; cbn. apply rgba_eq; ring. Qed.

Lemma comp_group a kids : comp (LGroup a kids) = scale a (comp_list kids transparent).
Proof. reflexivity. Qed.

Lemma comp_fade a l : comp (fade a l) = scale a (comp l).
Proof. destruct l; cbn [fade]; [reflexivity|]. rewrite !comp_group, scale_scale. reflexivity. Qed.

(* a group with opacity 1 composites exactly like its children spliced in place *)
Theorem flatten_opaque_group kids acc : over (comp (LGroup 1 kids)) acc = comp_list kids acc.
Proof.
  rewrite comp_group, scale_1. revert acc.
  assert (G : forall ks base acc, over (comp_list ks base) acc = comp_list ks (over base acc)).
  { induction ks as [|k r IH]; intros base acc; unfold comp_list in *; cbn [fold_left]; [reflexivity|].
    rewrite IH. rewrite over_assoc. reflexivity. }
  intro acc. rewrite G, over_transparent_l. reflexivity.
Qed.

(* a group with opacity 0 paints nothing, and so do its children once 0 is multiplied in *)
Theorem flatten_transparent_group kids acc :
  over (comp (LGroup 0 kids)) acc = acc /\ comp_list (map (fade 0) kids) acc = acc.
Proof.
  split.
  - rewrite comp_group, scale_0. apply over_transparent_l.
  - revert acc. induction kids as [|k r IH]; intro acc; unfold comp_list in *; cbn [map fold_left]; [reflexivity|].
    rewrite comp_fade, scale_0, over_transparent_l. apply IH.
Qed.

(* a group with at most one child: the child with the opacity multiplied in (any opacity) *)
Theorem flatten_single_child a k acc : over (comp (LGroup a [k])) acc = comp_list [fade a k] acc.
Proof.
  rewrite comp_group. unfold comp_list. cbn [fold_left]. rewrite comp_fade, over_transparent_r. reflexivity.
Qed.
Theorem flatten_empty_group a acc : over (comp (LGroup a [])) acc = acc.
Proof.
  rewrite comp_group. unfold comp_list. cbn [fold_left].
  unfold scale, transparent; cbn. destruct acc. unfold over; cbn. apply rgba_eq; ring.
Qed.

(* ... and why a translucent group with two overlapping children must be KEPT: pushing the opacity
   into the children changes the colour where they overlap *)
Example translucent_group_refuted :
  let top := LLeaf (mk_rgba 1 0 0 1) in let bottom := LLeaf (mk_rgba 0 0 1 1) in
  over (comp (LGroup (1/2) [bottom; top])) transparent <> comp_list (map (fade (1/2)) [bottom; top]) transparent.
Proof.
  cbn. unfold over, scale, transparent; cbn. intro H. injection H. intros. lra.
Qed.

(* ------------------------------------------------------------------ cascade *)
Notation amapR := (@amap ROps).
Notation avalR := (@aval ROps).

Lemma aget_cons (k0 : string) (v0 : avalR) (r : amapR) k :
  aget ((k0, v0) :: r) k = if (k0 =? k)%string then Some v0 else aget r k.
Proof. unfold aget. cbn [find fst snd]. destruct (k0 =? k)%string; reflexivity. Qed.

Lemma aget_aset_same (m : amapR) k v : aget (aset m k v) k = Some v.
Proof.
  induction m as [|[k' v'] r IH]; cbn [aset].
  - rewrite aget_cons, String.eqb_refl. reflexivity.
  - destruct (k' =? k)%string eqn:E; rewrite aget_cons.
    + rewrite String.eqb_refl. reflexivity.
    + rewrite E. exact IH.
Qed.

Lemma aget_aset_other (m : amapR) k k' v : k' <> k -> aget (aset m k v) k' = aget m k'.
Proof.
  intro Hne. induction m as [|[k0 v0] r IH]; cbn [aset].
  - rewrite aget_cons. destruct (k =? k')%string eqn:E; [apply String.eqb_eq in E; congruence|reflexivity].
  - destruct (k0 =? k)%string eqn:E; rewrite !aget_cons.
    + apply String.eqb_eq in E. subst k0.
      destruct (k =? k')%string eqn:E2; [apply String.eqb_eq in E2; congruence|reflexivity].
    + destruct (k0 =? k')%string; [reflexivity|exact IH].
Qed.

(* a handler only touches the attribute it is registered for *)
Lemma inherit_one_other h (attrib child child' : amapR) name k :
  k <> name -> (h = HClipPath -> name = "clip-path"%string) ->
  inherit_one h attrib child name = Ok child' -> aget child' k = aget child k.
Proof.
  intros Hne Hcp. destruct h; cbn [inherit_one]; intro H.
  - destruct (ahas child name); [injection H as <-; reflexivity|].
    destruct (aget attrib name); injection H as <-; [apply aget_aset_other; exact Hne|reflexivity].
  - destruct (negb (ahas attrib name) && negb (ahas child name)); [injection H as <-; reflexivity|].
    destruct (match aget attrib name with Some v => num_of v | None => Some (one ROps) end);
      destruct (match aget child name with Some v => num_of v | None => Some (one ROps) end); try discriminate.
    injection H as <-. apply aget_aset_other. exact Hne.
  - injection H as <-. rewrite (Hcp eq_refl) in Hne. apply aget_aset_other. exact Hne.
  - destruct (str_eq _ "visible"); [injection H as <-; reflexivity|].
    destruct (ahas child name); [injection H as <-; reflexivity|].
    destruct (aget attrib name); injection H as <-; [apply aget_aset_other; exact Hne|reflexivity].
  - destruct (str_eq _ "none"); [injection H as <-; apply aget_aset_other; exact Hne|].
    destruct (ahas child name); [injection H as <-; reflexivity|].
    destruct (aget attrib name); injection H as <-; [apply aget_aset_other; exact Hne|reflexivity].
  - discriminate.
  - injection H as <-. reflexivity.
Qed.

(* the copy handler: the child's own value wins, otherwise the context's *)
Lemma inherit_copy_spec (attrib child child' : amapR) name :
  inherit_one HCopy attrib child name = Ok child' ->
  aget child' name = match aget child name with Some v => Some v | None => aget attrib name end.
Proof.
  cbn [inherit_one]. unfold ahas. destruct (aget child name) as [v|] eqn:E.
  - intro H. injection H as <-. exact E.
  - destruct (aget attrib name) as [w|] eqn:Ea; intro H; injection H as <-; [apply aget_aset_same|exact E].
Qed.

(* the clip-path handler is registered for "clip-path" only (read off the generated table) *)
Lemma clip_handler_name name : handler_of name = Some HClipPath -> name = "clip-path"%string.
Proof.
  intro H. unfold handler_of, assoc_str_opt, INHERIT_HANDLERS in H. cbn [find fst snd] in H.
  repeat match type of H with
         | context [if (name =? ?b)%string then _ else _] =>
             let E := fresh "E" in
             destruct (name =? b)%string eqn:E;
             [cbn [snd] in H; try discriminate H; apply String.eqb_eq in E; exact E|]
         end.
  discriminate H.
Qed.

(* through the whole loop: an attribute handled by the copy handler ends up with the child's own
   value if it had one, else with the context's *)
Lemma inherit_loop_other tag skips (attrib : amapR) keys : forall child c rest k,
  inherit_loop tag skips attrib child keys = Ok (c, rest) -> ~ In k keys -> aget c k = aget child k.
Proof.
  induction keys as [|k0 r IH]; intros child c rest k H Hn; cbn [inherit_loop] in H.
  - injection H as <- _. reflexivity.
  - assert (Hk : k <> k0) by (intro E; apply Hn; left; symmetry; exact E).
    assert (Hr : ~ In k r) by (intro E; apply Hn; right; exact E).
    destruct (str_in k0 skips || negb (attr_supported tag k0)); [exact (IH _ _ _ _ H Hr)|].
    destruct (handler_of k0) as [h|] eqn:Eh.
    + destruct (inherit_one h attrib child k0) as [child'|e] eqn:E1; [|discriminate].
      rewrite (IH _ _ _ _ H Hr).
      eapply inherit_one_other; [exact Hk| |exact E1]. intro Hh. subst h. apply clip_handler_name. exact Eh.
    + destruct (inherit_loop tag skips attrib child r) as [[c' l']|e] eqn:E2; [|discriminate].
      injection H as <- _. exact (IH _ _ _ _ E2 Hr).
Qed.

Theorem inherit_loop_copy tag skips (attrib : amapR) keys : forall child c rest k,
  NoDup keys -> In k keys -> handler_of k = Some HCopy ->
  str_in k skips = false -> attr_supported tag k = true ->
  inherit_loop tag skips attrib child keys = Ok (c, rest) ->
  aget c k = match aget child k with Some v => Some v | None => aget attrib k end.
Proof.
  induction keys as [|k0 r IH]; intros child c rest k Hnd Hin Hh Hs Hsup H; [contradiction|].
  inversion Hnd as [|? ? Hnot Hnd']; subst. cbn [inherit_loop] in H.
  destruct Hin as [->|Hin].
  - rewrite Hs, Hsup in H. cbn [orb negb] in H. rewrite Hh in H.
    destruct (inherit_one HCopy attrib child k) as [child'|e] eqn:E1; [|discriminate].
    rewrite (inherit_loop_other _ _ _ _ _ _ _ _ H Hnot). apply inherit_copy_spec. exact E1.
  - assert (Hk : k <> k0) by (intro E; subst; contradiction).
    destruct (str_in k0 skips || negb (attr_supported tag k0)); [exact (IH _ _ _ _ Hnd' Hin Hh Hs Hsup H)|].
    destruct (handler_of k0) as [h|] eqn:Eh.
    + destruct (inherit_one h attrib child k0) as [child'|e] eqn:E1; [|discriminate].
      rewrite (IH _ _ _ _ Hnd' Hin Hh Hs Hsup H).
      rewrite (inherit_one_other h attrib child child' k0 k Hk); [reflexivity| |exact E1].
      intro E; subst h; apply clip_handler_name; exact Eh.
    + destruct (inherit_loop tag skips attrib child r) as [[c' l']|e] eqn:E2; [|discriminate].
      injection H as <- _. exact (IH _ _ _ _ Hnd' Hin Hh Hs Hsup E2).
Qed.
