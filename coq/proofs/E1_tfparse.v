(* proofs/E1_tfparse.v — a parsed transform list denotes the product of its operations'
   SVG matrices, in order; tostring/fromstring round trip at the operation level. *)
From Coq Require Import ZArith Reals Lra Lia List Bool String.
From Pico Require Import Num PyStr Lex G_geom G_transform TransformParse E1_affine.
Import ListNotations.
Local Open Scope R_scope.

Definition deg (x : R) : R := x * (PI / 180).

(* SVG 1.1 §7.6: the matrix of one transform operation (angles in degrees) *)
Definition op_matrix (op : tf_op) (args : list R) : option Aff :=
  match op, args with
  | TMatrix, [a; b; c; d; e; f] => Some (mkA a b c d e f)
  | TTranslate, [tx] => Some (mkA 1 0 0 1 tx 0)
  | TTranslate, [tx; ty] => Some (mkA 1 0 0 1 tx ty)
  | TScale, [sx] => Some (mkA sx 0 0 sx 0 0)
  | TScale, [sx; sy] => Some (mkA sx 0 0 sy 0 0)
  | TRotate, [a] => Some (mkA (cos (deg a)) (sin (deg a)) (- sin (deg a)) (cos (deg a)) 0 0)
  | TRotate, [a; cx; cy] =>
      Some (matmul (matmul (mkA 1 0 0 1 cx cy) (mkA (cos (deg a)) (sin (deg a)) (- sin (deg a)) (cos (deg a)) 0 0))
                   (mkA 1 0 0 1 (- cx) (- cy)))
  | TRotate, [a; cx] =>   (* accepted by the code (cy defaults to 0); not in the SVG grammar *)
      Some (matmul (matmul (mkA 1 0 0 1 cx 0) (mkA (cos (deg a)) (sin (deg a)) (- sin (deg a)) (cos (deg a)) 0 0))
                   (mkA 1 0 0 1 (- cx) (- 0)))
  | TSkewX, [a] => Some (mkA 1 0 (tan (deg a)) 1 0 0)
  | TSkewY, [a] => Some (mkA 1 (tan (deg a)) 0 1 0 0)
  | _, _ => None
  end.

Lemma rad_deg x : rad (N:=ROps) RMath x = deg x.
Proof. reflexivity. Qed.

Lemma rotate0 (t : Aff) a :
  Affine2D_rotate ROps RMath t a 0 0 = matmul t (mkA (cos a) (sin a) (- sin a) (cos a) 0 0).
Proof.
  rewrite rotate_spec. destruct t. runfold. apply affine_eq; ring.
Qed.

Lemma apply_op_is_matmul (t t' : Aff) op args :
  apply_op (N:=ROps) RMath t op args = Ok t' ->
  exists m, op_matrix op args = Some m /\ t' = matmul t m.
Proof.
  unfold apply_op.
  destruct op; destruct args as [|a1 [|a2 [|a3 [|a4 [|a5 [|a6 [|a7 r]]]]]]]; try discriminate;
    intro H; injection H as <-; cbn [op_matrix of_Z ROps]; eexists; (split; [reflexivity|]);
    rewrite ?rad_deg, ?translate_spec, ?scale_spec, ?scale_default, ?matrix_spec, ?skewx_spec, ?skewy_spec;
    try reflexivity.
  - apply rotate0.
  - rewrite rotate_spec, !matmul_assoc. reflexivity.
  - rewrite rotate_spec, !matmul_assoc. reflexivity.
Qed.

(* the whole list: the result is the running product, left to right *)
Theorem apply_ops_is_product ops : forall (t M : Aff),
  apply_ops (N:=ROps) RMath t ops = Ok M ->
  exists ms, map (fun oa => op_matrix (fst oa) (snd oa)) ops = map Some ms /\ M = fold_left matmul ms t.
Proof.
  induction ops as [|[op args] ops IH]; intros t M H; cbn [apply_ops] in H.
  - injection H as <-. exists []. split; reflexivity.
  - destruct (apply_op RMath t op args) as [t'|e] eqn:E; [|discriminate].
    apply apply_op_is_matmul in E. destruct E as [m [Em ->]].
    apply IH in H. destruct H as [ms [Hms ->]].
    exists (m :: ms). cbn [map fold_left fst snd]. rewrite Em, Hms. split; reflexivity.
Qed.

(* and the product maps a point through the LAST listed operation first (SVG nesting order) *)
Lemma product_maps ms : forall (t : Aff) p,
  mapP (fold_left matmul ms t) p = mapP t (fold_right (fun m q => mapP m q) p ms).
Proof.
  induction ms as [|m ms IH]; intros t p; cbn [fold_left fold_right]; [reflexivity|].
  rewrite IH, matmul_map_point. reflexivity.
Qed.

(* tostring at the operation level: translate(e, f) when the matrix is a pure translation,
   matrix(a b c d e f) otherwise; re-applying the printed operation gives the matrix back *)
Definition tostring_op (A : Aff) : tf_op * list R :=
  if Affine2D_eqb ROps A (Affine2D_translate ROps ident (Affine2D_e A) (Affine2D_f A))
  then (TTranslate, [Affine2D_e A; Affine2D_f A])
  else (TMatrix, [Affine2D_a A; Affine2D_b A; Affine2D_c A; Affine2D_d A; Affine2D_e A; Affine2D_f A]).

Theorem tostring_fromstring_ops (A : Aff) :
  apply_ops (N:=ROps) RMath ident [tostring_op A] = Ok A.
Proof.
  unfold tostring_op.
  destruct (Affine2D_eqb ROps A (Affine2D_translate ROps ident (Affine2D_e A) (Affine2D_f A))) eqn:E.
  - apply Affine2D_eqb_true in E. cbn [apply_ops apply_op]. rewrite <- E. reflexivity.
  - cbn [apply_ops apply_op]. rewrite matrix_spec, matmul_ident_l. destruct A. reflexivity.
Qed.
