(* proofs/E5_noise.v — the cleaning front end removes every kind of ignorable content wherever it is
   inserted, and nothing else (C14). *)
From Coq Require Import List Bool Ascii String.
From Pico Require Import PyStr Noise.
Import ListNotations.
Local Open Scope string_scope.

Section nnode_ind2.
  Variable P : nnode -> Prop.
  Hypothesis Hc : P NComment.
  Hypothesis Hp : P NPI.
  Hypothesis He : forall ns t a kids, Forall P kids -> P (NEl ns t a kids).
  Fixpoint nnode_ind2 (n : nnode) : P n :=
    match n with
    | NComment => Hc
    | NPI => Hp
    | NEl ns t a kids => He ns t a kids ((fix go (l : list nnode) : Forall P l :=
                           match l with [] => Forall_nil _ | x :: r => Forall_cons _ (nnode_ind2 x) (go r) end) kids)
    end.
End nnode_ind2.

Lemma flat_map_ext_Forall {A B} (f g : A -> list B) l : Forall (fun x => f x = g x) l -> flat_map f l = flat_map g l.
Proof. induction 1 as [|x r Hx Hr IH]; cbn [flat_map]; [reflexivity|]. rewrite Hx, IH. reflexivity. Qed.

Lemma flat_map_flat_map {A B C} (f : A -> list B) (g : B -> list C) l :
  flat_map g (flat_map f l) = flat_map (fun x => flat_map g (f x)) l.
Proof. induction l as [|x r IH]; cbn [flat_map]; [reflexivity|]. rewrite flat_map_app, IH. reflexivity. Qed.

(* the five passes, composed, are the one-pass purge *)
Definition five (n : nnode) : list nnode :=
  flat_map drop_tmd (flat_map drop_anon_symbols (flat_map drop_pi (flat_map drop_nonsvg (drop_comments n)))).

Lemma has_plain_id_filter a : has_plain_id (filter (fun x : attr => good_ns (fst (fst x))) a) = has_plain_id a.
Proof.
  induction a as [|[[ns name] v] r IH]; cbn [filter has_plain_id existsb fst]; [reflexivity|].
  destruct ns; cbn [good_ns existsb]; fold (has_plain_id r); fold (has_plain_id (filter (fun x : attr => good_ns (fst (fst x))) r));
    rewrite ?IH; reflexivity.
Qed.

Lemma nest5 l :
  flat_map drop_tmd (flat_map drop_anon_symbols (flat_map drop_pi (flat_map drop_nonsvg (flat_map drop_comments l)))) = flat_map five l.
Proof. induction l as [|x r IH]; cbn [flat_map]; [reflexivity|]. rewrite !flat_map_app, IH. reflexivity. Qed.

Lemma five_purge n : five n = purge n.
Proof.
  induction n as [| |ns t a kids IH] using nnode_ind2; unfold five; cbn [drop_comments flat_map]; try reflexivity.
  cbn [drop_nonsvg app]. unfold purge; fold purge. unfold noise_el.
  destruct (good_ns ns) eqn:G; cbn [negb orb flat_map app]; [|reflexivity].
  cbn [drop_pi flat_map app drop_anon_symbols]. rewrite has_plain_id_filter.
  destruct (is_svg ns && (t =? "symbol") && negb (has_plain_id a)) eqn:S.
  - cbn [flat_map]. apply andb_true_iff in S. destruct S as [S1 S3]. apply andb_true_iff in S1. destruct S1 as [S1 S2].
    rewrite S1, S2, S3. reflexivity.
  - cbn [flat_map app drop_tmd].
    assert (E : is_svg ns && (((t =? "symbol") && negb (has_plain_id a)) || is_tmd t) = is_svg ns && is_tmd t).
    { destruct (is_svg ns); cbn [andb] in *; [|reflexivity]. rewrite S. reflexivity. }
    rewrite E. destruct (is_svg ns && is_tmd t); [reflexivity|]. f_equal. f_equal.
    rewrite nest5. cbn [app]. f_equal. f_equal. apply flat_map_ext_Forall. exact IH.
Qed.

Theorem clean_list_purge l : clean_list l = flat_map purge l.
Proof.
  unfold clean_list. rewrite nest5. apply flat_map_ext_Forall. apply Forall_forall. intros x _. apply five_purge.
Qed.

(* ------------------------------------------------------------------ noise insertion *)
(* a noise node: comment, PI, foreign element (any content), title/desc/metadata, id-less symbol (any content) *)
Definition is_noise (n : nnode) : bool :=
  match n with
  | NComment | NPI => true
  | NEl ns t a _ => noise_el ns t a
  end.

(* t' is t with noise nodes inserted at arbitrary positions (any depth, also inside noise) and
   foreign attributes added to arbitrary elements *)
Inductive noisy : nnode -> nnode -> Prop :=
| noisy_leaf_c : noisy NComment NComment
| noisy_leaf_p : noisy NPI NPI
| noisy_el ns t a a' kids kids' :
    filter (fun x : attr => good_ns (fst (fst x))) a = filter (fun x : attr => good_ns (fst (fst x))) a' ->
    noisy_list kids kids' -> noisy (NEl ns t a kids) (NEl ns t a' kids')
with noisy_list : list nnode -> list nnode -> Prop :=
| nl_nil : noisy_list [] []
| nl_keep x x' l l' : noisy x x' -> noisy_list l l' -> noisy_list (x :: l) (x' :: l')
| nl_insert n l l' : is_noise n = true -> noisy_list l l' -> noisy_list l (n :: l').

Scheme noisy_mut := Induction for noisy Sort Prop
with noisy_list_mut := Induction for noisy_list Sort Prop.

Lemma purge_noise n : is_noise n = true -> purge n = [].
Proof. destruct n as [ns t a kids| |]; cbn [is_noise purge]; [intros ->|..]; reflexivity. Qed.

Lemma noise_el_attrs ns t a a' :
  filter (fun x : attr => good_ns (fst (fst x))) a = filter (fun x : attr => good_ns (fst (fst x))) a' ->
  noise_el ns t a = noise_el ns t a'.
Proof. intro H. unfold noise_el. unfold attr in *. rewrite H. reflexivity. Qed.

Theorem noisy_purge : forall t t', noisy t t' -> purge t = purge t'.
Proof.
  apply (noisy_mut (fun t t' _ => purge t = purge t') (fun l l' _ => flat_map purge l = flat_map purge l')).
  - reflexivity.
  - reflexivity.
  - intros ns t a a' kids kids' Ha _ IH. cbn [purge]. rewrite (noise_el_attrs ns t a a' Ha). unfold attr in *. rewrite Ha, IH. reflexivity.
  - reflexivity.
  - intros x x' l l' _ Hx _ Hl. cbn [flat_map]. rewrite Hx, Hl. reflexivity.
  - intros n l l' Hn _ IH. cbn [flat_map]. rewrite (purge_noise n Hn). exact IH.
Qed.

Theorem noise_invisible_to_cleaning root root' : noisy root root' -> clean_root root = clean_root root'.
Proof.
  intro H. inversion H as [| |ns t a a' kids kids' Ha Hk]; subst; try reflexivity.
  cbn [clean_root]. rewrite !clean_list_purge. unfold attr in *. rewrite Ha. f_equal.
  assert (G : purge (NEl NsSvg "g" [] kids) = purge (NEl NsSvg "g" [] kids')).
  { apply noisy_purge. constructor; [reflexivity|exact Hk]. }
  cbn in G. injection G as G. exact G.
Qed.

(* ... and cleaning removes nothing else: a tree without noise and without foreign attributes is unchanged *)
Fixpoint noise_free (n : nnode) : bool :=
  match n with
  | NComment | NPI => false
  | NEl ns t a kids => negb (noise_el ns t a) && forallb (fun x => good_ns (fst (fst x))) a && forallb noise_free kids
  end.

Lemma filter_all {A} (f : A -> bool) l : forallb f l = true -> filter f l = l.
Proof. induction l as [|x r IH]; cbn [forallb filter]; [reflexivity|]. intro H. apply andb_true_iff in H. destruct H as [-> H]. rewrite IH by exact H. reflexivity. Qed.

Theorem purge_noise_free n : noise_free n = true -> purge n = [n].
Proof.
  induction n as [| |ns t a kids IH] using nnode_ind2; cbn [noise_free]; try discriminate.
  intro H. apply andb_true_iff in H. destruct H as [H Hk]. apply andb_true_iff in H. destruct H as [Hn Ha].
  cbn [purge]. apply negb_true_iff in Hn. rewrite Hn. unfold attr in *. rewrite (filter_all _ a Ha). f_equal. f_equal.
  induction kids as [|k r IHr]; cbn [flat_map]; [reflexivity|].
  cbn [forallb] in Hk. apply andb_true_iff in Hk. destruct Hk as [Hk1 Hk2].
  inversion IH as [|? ? Hx Hr]; subst. rewrite (Hx Hk1). cbn [app]. f_equal. apply IHr; assumption.
Qed.
