(* proofs/E6_translation.v — C20, second clause: an exact translation of a shape is always found.
   Stated on the affine-friendly (relative) forms the search compares: if the two forms differ only
   in their initial moveto, the first candidate of the search - the translation between the two
   starting points - verifies, so a transform is reported, for any later-stage candidate generators. *)
From Coq Require Import ZArith Reals Lra List Bool Ascii String.
From Pico Require Import Num PyStr G_geom G_transform G_meta G_types Walk Reuse E1_affine E3_walk E6_reuse.
Import ListNotations.
Local Open Scope char_scope.
Local Open Scope R_scope.

Definition strip3 (l : list (Pt * ascii * list R)) : pathR := map (fun t => (snd (fst t), snd t)) l.

(* a callback that rewrites each command in place, looking at nothing but the command itself *)
Section WalkMap.
  Variable g : ascii -> list R -> list R.
  Let cb : @callback ROps := fun _ _ cmd args _ => [(cmd, g cmd args)].

  Lemma walk_loop_map (p : pathR) : forall (w : wst),
    strip3 (w_out (walk_loop cb false w p)) = strip3 (w_out w) ++ map (fun ca => (fst ca, g (fst ca) (snd ca))) p.
  Proof.
    induction p as [|[c a] r IH]; intro w; cbn [walk_loop map]; [rewrite app_nil_r; reflexivity|].
    rewrite IH. unfold walk_step, cb. cbn [andb fold_left]. unfold emit. destruct w as [cur start out]. cbn [w_out fst snd].
    unfold strip3. rewrite map_app. cbn [map fst snd]. rewrite <- app_assoc. reflexivity.
  Qed.

  Lemma walk_map c a (r : pathR) : c <> "m" ->
    walk cb ((c, a) :: r) = (c, g c a) :: map (fun ca => (fst ca, g (fst ca) (snd ca))) r.
  Proof.
    intro Hc. unfold walk. cbn [walk_loop]. fold (strip3 (w_out (walk_loop cb false (walk_step cb true (mk_w origin origin []) (c, a)) r))).
    rewrite walk_loop_map. unfold walk_step, cb.
    destruct (Ascii.eqb c "m") eqn:E; [apply Ascii.eqb_eq in E; contradiction|]. cbn [andb fold_left]. unfold emit. cbn [w_out app strip3 map fst snd].
    reflexivity.
  Qed.
End WalkMap.

Lemma apply_affine_is_map (A : Aff) c a (r : pathR) : c <> "m" ->
  apply_affine RMath A ((c, a) :: r) = (c, affine_args RMath A c a) :: map (fun ca => (fst ca, affine_args RMath A (fst ca) (snd ca))) r.
Proof. intro H. unfold apply_affine, cb_affine. apply (walk_map (affine_args RMath A)). exact H. Qed.

(* ------------------------------------------------------------------ a translation leaves relative commands alone *)
Definition eps9R : R := @eps9 ROps.
Definition near (x y : R) : Prop := Rabs (x - y) <= eps9R.

Lemma eps9R_pos : 0 <= eps9R.
Proof.
  unfold eps9R, eps9. cbn [of_dec ROps]. unfold Rpow10. rewrite Rmult_1_l.
  change (powerRZ 10 (-9)) with (/ 10 ^ 9). left. apply Rinv_0_lt_compat. apply pow_lt. lra.
Qed.

Lemma near_refl x : near x x.
Proof. unfold near. replace (x - x) with 0 by ring. rewrite Rabs_R0. exact eps9R_pos. Qed.

Lemma snap0_near (x y : R) : x = y -> near (snap0 (N:=ROps) x) y.
Proof.
  intros <-. unfold snap0. destruct (almost_equal ROps x (zero ROps) eps9) eqn:E; [|apply near_refl].
  unfold almost_equal in E. rewrite pyabs_R in E. cbn [leb ROps sub zero] in E. apply Rleb_true in E.
  unfold near, eps9R. cbn [zero ROps]. replace (0 - x) with (- (x - 0)) by ring. rewrite Rabs_Ropp. exact E.
Qed.

Lemma vnorm_10 : vnorm RMath 1 0 = 1.
Proof. unfold vnorm. cbn [m_sqrt RMath add mul ROps]. replace (1 * 1 + 0 * 0) with 1 by ring. apply sqrt_1. Qed.
Lemma vnorm_01 : vnorm RMath 0 1 = 1.
Proof. unfold vnorm. cbn [m_sqrt RMath add mul ROps]. replace (0 * 0 + 1 * 1) with 1 by ring. apply sqrt_1. Qed.

Definition relative_letters : list ascii := ["m"; "l"; "c"; "q"; "a"; "z"].

Lemma translation_keeps_relative e f c (a : list R) :
  In c relative_letters -> num_args c = Some (List.length a) ->
  Forall2 near (affine_args RMath (mkA 1 0 0 1 e f) c a) a.
Proof.
  intros Hc Ha. unfold relative_letters in Hc. cbn [In] in Hc.
  repeat (destruct Hc as [<-|Hc]); [..|contradiction];
    fix_arity Ha a; unfold affine_args; crunch;
    cbn [Affine2D_map_vector Affine2D_map_point Affine2D_a Affine2D_b Affine2D_c Affine2D_d Affine2D_e Affine2D_f Vector_x Vector_y Point_x Point_y];
    crunch; Rnorm; rewrite ?vnorm_10, ?vnorm_01;
    repeat (constructor; [first [apply near_refl | apply snap0_near; ring | (unfold near; match goal with |- Rabs (?u * 1 - ?u) <= _ => replace (u * 1 - u) with 0 by ring end; rewrite Rabs_R0; exact eps9R_pos)]|]); constructor.
Qed.

Lemma near_args_pass tol (a b : list R) : eps9R <= tol -> Forall2 near a b ->
  Nat.eqb (List.length a) (List.length b) = true /\
  forallb (fun xy => negb (ltb ROps tol (@pyabs ROps (sub ROps (fst xy) (snd xy))))) (combine a b) = true.
Proof.
  intros Ht H. induction H as [|x y a b Hxy _ [IHl IHf]]; [split; reflexivity|].
  split; [cbn [List.length]; exact IHl|].
  cbn [combine forallb fst snd]. rewrite IHf, andb_true_r. apply negb_true_iff. rewrite pyabs_R. cbn [ltb sub ROps].
  apply Rltb_false. unfold near in Hxy. lra.
Qed.

Definition rel_wf (c : cmdR) : Prop := In (fst c) relative_letters /\ num_args (fst c) = Some (List.length (snd c)).

Lemma translated_tail_passes tol e f (r : pathR) : eps9R <= tol -> Forall rel_wf r ->
  path_almost_equals (N:=ROps) tol (map (fun ca => (fst ca, affine_args RMath (mkA 1 0 0 1 e f) (fst ca) (snd ca))) r) r = true.
Proof.
  intros Ht H. induction H as [|[c a] r [Hc Ha] _ IH]; [reflexivity|]. cbn [map fst snd path_almost_equals] in *.
  destruct (near_args_pass tol _ _ Ht (translation_keeps_relative e f c a Hc Ha)) as [Hl Hf].
  rewrite Ascii.eqb_refl. cbn [andb]. apply andb_true_iff; split; [apply andb_true_iff; split|]; [exact Hl|exact Hf|exact IH].
Qed.

Lemma translated_move_passes tol x1 y1 x2 y2 : eps9R <= tol ->
  Forall2 near (affine_args RMath (mkA 1 0 0 1 (x2 - x1) (y2 - y1)) "M" [x1; y1]) [x2; y2].
Proof.
  intro Ht. unfold affine_args; crunch.
  cbn [Affine2D_map_vector Affine2D_map_point Affine2D_a Affine2D_b Affine2D_c Affine2D_d Affine2D_e Affine2D_f Vector_x Vector_y Point_x Point_y].
  crunch; Rnorm. repeat (constructor; [apply snap0_near; ring|]). constructor.
Qed.

Section AnyLaterStages.
  Variable cand2 cand3 : pathR -> pathR -> result (option Aff).

  Theorem exact_translation_found (p1 p2 r : pathR) tol x1 y1 x2 y2 :
    eps9R <= tol ->
    friendlyR p1 = ("M", [x1; y1]) :: r -> friendlyR p2 = ("M", [x2; y2]) :: r -> Forall rel_wf r ->
    exists A, affine_between RMath cand2 cand3 p1 p2 tol = Ok (Some A).
  Proof.
    intros Ht H1 H2 Hr. unfold affine_between.
    destruct (path_almost_equals (N:=ROps) tol p1 p2); [eexists; reflexivity|].
    rewrite H1, H2. cbn [first_move]. crunch.
    assert (Htry : try_affineR (Affine2D_translate ROps (Affine2D_identity ROps) (sub ROps x2 x1) (sub ROps y2 y1))
                     (("M", [x1; y1]) :: r) (("M", [x2; y2]) :: r) tol = true).
    { rewrite translate_spec. change (Affine2D_identity ROps) with ident. rewrite matmul_ident_l. cbn [sub ROps].
      unfold try_affine. rewrite apply_affine_is_map by discriminate. cbn [path_almost_equals].
      destruct (near_args_pass tol _ _ Ht (translated_move_passes tol x1 y1 x2 y2 Ht)) as [Hl Hf].
      rewrite Ascii.eqb_refl. cbn [andb]. apply andb_true_iff; split; [apply andb_true_iff; split|]; [exact Hl|exact Hf|exact (translated_tail_passes tol _ _ r Ht Hr)]. }
    rewrite Htry. eexists; reflexivity.
  Qed.
End AnyLaterStages.

(* the premise is met by real outlines: a triangle with a curve, in relative form *)
Example rel_wf_example : Forall rel_wf [("l", [3; 0]); ("q", [1; 2; 0; 3]); ("c", [0; 1; -1; 2; -2; 2]); ("a", [2; 1; 0; 0; 1; -1; -1]); ("z", [])]%R.
Proof. repeat constructor; cbn; tauto. Qed.
