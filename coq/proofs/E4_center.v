(* proofs/E4_center.v — the centre of the arc is mapped back to user space by the EXACT inverse of the
   normalising map, for all non-zero radii and every rotation: no determinant threshold is involved
   (fix: the code used Affine2D.inverse(), which answers "degenerate" once 1/(rx ry) <= float epsilon). *)
From Coq Require Import ZArith Reals Lra List Bool.
From Pico Require Import Num PyStr G_geom G_transform G_arc.
Local Open Scope R_scope.

Definition norm_map (rx ry angle : R) : @Affine2D ROps :=
  Affine2D_rotate ROps RMath (Affine2D_scale ROps (Affine2D_identity ROps) (1 / rx) (Some (1 / ry))) (- angle) 0 0.
Definition back_map (rx ry angle : R) : @Affine2D ROps :=
  Affine2D_scale ROps (Affine2D_rotate ROps RMath (Affine2D_identity ROps) angle 0 0) rx (Some ry).

Lemma translate_00 (A : @Affine2D ROps) : Affine2D_translate ROps A 0 0 = A.
Proof.
  unfold Affine2D_translate. cbn [eqb ROps of_Z].
  rewrite Reqb_refl. reflexivity.
Qed.
Lemma translate_m00 (A : @Affine2D ROps) : Affine2D_translate ROps A (- 0) (- 0) = A.
Proof. replace (- 0) with 0 by ring. apply translate_00. Qed.

Theorem back_map_inverts (rx ry angle : R) (p : @Point ROps) :
  rx <> 0 -> ry <> 0 ->
  Affine2D_map_point ROps (back_map rx ry angle) (Affine2D_map_point ROps (norm_map rx ry angle) p) = p.
Proof.
  intros Hx Hy. destruct p as [x y].
  unfold back_map, norm_map, Affine2D_rotate.
  cbn [of_Z ROps opp]. rewrite !translate_00, !translate_m00.
  unfold Affine2D_scale, Affine2D_matrix, Affine2D___matmul__, Affine2D_identity, Affine2D_map_point.
  cbn [Affine2D_a Affine2D_b Affine2D_c Affine2D_d Affine2D_e Affine2D_f Point_x Point_y add sub mul div opp of_Z ROps m_cos m_sin RMath].
  rewrite cos_neg, sin_neg.
  pose proof (sin2_cos2 angle) as H. unfold Rsqr in H.
  set (c := cos angle) in *. set (s := sin angle) in *.
  f_equal.
  - transitivity ((s * s + c * c) * x); [field; tauto | rewrite H; ring].
  - transitivity ((s * s + c * c) * y); [field; tauto | rewrite H; ring].
Qed.

(* the two maps are exactly the ones end_to_center_parametrization builds *)
Lemma maps_are_the_codes (rx ry angle : R) :
  norm_map rx ry angle =
    Affine2D_rotate ROps RMath (Affine2D_scale ROps (Affine2D_identity ROps) (div ROps (of_Z ROps 1) rx) (Some (div ROps (of_Z ROps 1) ry))) (opp ROps angle) (of_Z ROps 0) (of_Z ROps 0)
  /\ back_map rx ry angle =
    Affine2D_scale ROps (Affine2D_rotate ROps RMath (Affine2D_identity ROps) angle (of_Z ROps 0) (of_Z ROps 0)) rx (Some ry).
Proof. split; reflexivity. Qed.

(* ... and the centre the regenerated end_to_center_parametrization returns is the image under back_map of the
   centre it computed in normalised coordinates (with the fix in place; Affine2D.inverse is not involved) *)
Theorem center_is_back_mapped (self : @EllipticalArc ROps) cp :
  EllipticalArc_end_to_center_parametrization ROps RMath self = Ok cp ->
  exists q, CenterParametrization_center_point cp =
            Affine2D_map_point ROps (back_map (EllipticalArc_rx self) (EllipticalArc_ry self)
                                              (EllipticalArc_rotation self * (PI / 180))) q.
Proof.
  unfold EllipticalArc_end_to_center_parametrization.
  destruct (EllipticalArc_is_straight_line ROps self || EllipticalArc_is_zero_length ROps self); [discriminate|].
  cbv zeta. intro H. injection H as H. subst cp. cbn [CenterParametrization_center_point].
  eexists. reflexivity.
Qed.
