(* proofs/E5_flatten.v — flattening keeps the painting order, for trees of any depth and width. *)
From Coq Require Import List Bool Arith.
From Pico Require Import Flatten.
Import ListNotations.

Lemma flat_map_app_leaves (l1 l2 : list ftree) : flat_map leaves (l1 ++ l2) = flat_map leaves l1 ++ flat_map leaves l2.
Proof. apply flat_map_app. Qed.

Theorem flatten_keeps_order (t : ftree) : flat_map leaves (flatten t) = leaves t.
Proof.
  induction t as [i|d kids IH] using ftree_ind2; [reflexivity|].
  assert (H : flat_map leaves (flat_map flatten kids) = flat_map leaves kids).
  { induction IH as [|k r Hk _ IHr]; [reflexivity|]. cbn [flat_map]. rewrite flat_map_app, Hk, IHr. reflexivity. }
  cbn [flatten leaves]. destruct d; [exact H|]. cbn [flat_map leaves]. rewrite app_nil_r. exact H.
Qed.

(* one step, anywhere in a list of siblings *)
Theorem replace_el_keeps_order (before after : list ftree) (t : ftree) :
  flat_map leaves (before ++ replace_el t ++ after) = flat_map leaves (before ++ t :: after).
Proof.
  rewrite !flat_map_app. cbn [flat_map]. f_equal. f_equal.
  destruct t as [i|d kids]; cbn [replace_el leaves flat_map]; [rewrite app_nil_r|]; reflexivity.
Qed.

(* nothing is lost or duplicated: the flattened forest has no dissolvable group left *)
Fixpoint no_dissolvable (t : ftree) : bool :=
  match t with FLeaf _ => true | FGroup d kids => negb d && forallb no_dissolvable kids end.

Theorem flatten_is_flat (t : ftree) : forallb no_dissolvable (flatten t) = true.
Proof.
  induction t as [i|d kids IH] using ftree_ind2; [reflexivity|].
  assert (H : forallb no_dissolvable (flat_map flatten kids) = true).
  { induction IH as [|k r Hk _ IHr]; [reflexivity|]. cbn [flat_map]. rewrite forallb_app, Hk, IHr. reflexivity. }
  cbn [flatten]. destruct d; [exact H|]. cbn [forallb no_dissolvable negb andb]. rewrite H. reflexivity.
Qed.

(* instanced content appears once per use, in place *)
Theorem instances_in_order (k : nat) (f : list ftree) :
  flat_map leaves (repeat_forest k f) = concat (repeat (flat_map leaves f) k).
Proof. induction k as [|k IH]; [reflexivity|]. cbn [repeat_forest repeat concat]. rewrite flat_map_app, IH. reflexivity. Qed.

Example flatten_example :
  let t := FGroup true [FLeaf 1; FGroup false [FLeaf 2; FGroup true [FLeaf 3; FLeaf 4]]; FLeaf 5] in
  flatten t = [FLeaf 1; FGroup false [FLeaf 2; FLeaf 3; FLeaf 4]; FLeaf 5] /\ leaves t = [1; 2; 3; 4; 5].
Proof. vm_compute. split; reflexivity. Qed.
