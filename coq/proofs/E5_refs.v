(* proofs/E5_refs.v — reference bookkeeping (C08): generated ids are fresh, instancing use content
   introduces no ids, orphan removal leaves exactly the referenced gradients. *)
From Coq Require Import ZArith List Bool Ascii String Lia.
From Pico Require Import Num PyStr CheckPico Refs.
Import ListNotations.
Local Open Scope string_scope.

Lemma str_in_spec s l : str_in s l = true <-> In s l.
Proof.
  unfold str_in. rewrite existsb_exists. split.
  - intros [x [Hin He]]. apply String.eqb_eq in He. subst. exact Hin.
  - intro H. exists s. split; [exact H|apply String.eqb_refl].
Qed.

(* ---------------------------------------------------------------- _new_id *)
Theorem new_id_loop_fresh prefix existing fuel : forall i s,
  new_id_loop prefix existing fuel i = Some s ->
  ~ In s existing /\ exists j, (i <= j < i + fuel)%nat /\ s = prefix ++ nat_str j /\
  forall k, (i <= k < j)%nat -> In (prefix ++ nat_str k) existing.
Proof.
  induction fuel as [|f IH]; intros i s H; cbn [new_id_loop] in H; [discriminate|].
  destruct (str_in (prefix ++ nat_str i) existing) eqn:E.
  - destruct (IH (S i) s H) as [Hn [j [Hj [Hs Hk]]]]. split; [exact Hn|].
    exists j. split; [lia|]. split; [exact Hs|].
    intros k Hk'. destruct (Nat.eq_dec k i) as [->|Hne]; [apply str_in_spec; exact E|apply Hk; lia].
  - injection H as <-. split.
    + intro Hin. apply str_in_spec in Hin. congruence.
    + exists i. split; [lia|]. split; [reflexivity|]. intros k Hk. lia.
Qed.

Theorem new_id_fresh prefix existing s : new_id prefix existing = Some s -> ~ In s existing.
Proof. intro H. exact (proj1 (new_id_loop_fresh prefix existing _ _ _ H)). Qed.

Theorem new_id_keeps_unique prefix existing s :
  NoDup existing -> new_id prefix existing = Some s -> NoDup (s :: existing).
Proof. intros Hnd H. constructor; [exact (new_id_fresh _ _ _ H)|exact Hnd]. Qed.

(* ---------------------------------------------------------------- use instancing *)
Section xnode_ind2.
  Variable P : xnode -> Prop.
  Hypothesis H : forall t i kids, Forall P kids -> P (XN t i kids).
  Fixpoint xnode_ind2 (n : xnode) : P n :=
    match n with
    | XN t i kids => H t i kids ((fix go (l : list xnode) : Forall P l :=
                                    match l with [] => Forall_nil _ | x :: r => Forall_cons _ (xnode_ind2 x) (go r) end) kids)
    end.
End xnode_ind2.

Lemma ids_strip n : ids (strip_ids n) = [].
Proof.
  induction n as [t i kids IH] using xnode_ind2. cbn [strip_ids ids app].
  induction kids as [|k r IHr]; cbn [map flat_map]; [reflexivity|].
  inversion IH as [|? ? Hk Hr]; subst. rewrite Hk. cbn [app]. apply IHr. exact Hr.
Qed.

(* a sublist relation: l1 is obtained from l2 by deleting elements *)
Inductive sub {A} : list A -> list A -> Prop :=
| sub_nil : sub [] []
| sub_skip x l1 l2 : sub l1 l2 -> sub l1 (x :: l2)
| sub_keep x l1 l2 : sub l1 l2 -> sub (x :: l1) (x :: l2).

Lemma sub_refl {A} (l : list A) : sub l l.
Proof. induction l; constructor; assumption. Qed.
Lemma sub_nil_l {A} (l : list A) : sub [] l.
Proof. induction l; constructor; assumption. Qed.
Lemma sub_app {A} (a1 a2 b1 b2 : list A) : sub a1 a2 -> sub b1 b2 -> sub (a1 ++ b1) (a2 ++ b2).
Proof. intros Ha Hb. induction Ha; cbn [app]; try constructor; assumption. Qed.
Lemma sub_In {A} (l1 l2 : list A) x : sub l1 l2 -> In x l1 -> In x l2.
Proof. intro H. induction H; cbn [In]; intuition. Qed.
Lemma sub_NoDup {A} (l1 l2 : list A) : sub l1 l2 -> NoDup l2 -> NoDup l1.
Proof.
  intro H. induction H; intro Hnd; [constructor| |]; inversion Hnd as [|? ? Hx Hr]; subst.
  - apply IHsub. exact Hr.
  - constructor; [|apply IHsub; exact Hr]. intro Hin. apply Hx. eapply sub_In; eassumption.
Qed.

(* a pass of _resolve_use never adds an id: the ids afterwards are a sublist of the ids before *)
Theorem resolve_use_pass_ids target href n : sub (ids (resolve_use_pass target href n)) (ids n).
Proof.
  induction n as [t i kids IH] using xnode_ind2. cbn [resolve_use_pass].
  destruct (t =? "use").
  - destruct (target (href (XN t i kids))) as [tg|]; [|apply sub_refl].
    cbn [ids flat_map]. rewrite ids_strip. cbn [app]. apply sub_nil_l.
  - cbn [ids]. apply sub_app; [apply sub_refl|].
    induction kids as [|k r IHr]; cbn [map flat_map]; [constructor|].
    inversion IH as [|? ? Hk Hr]; subst. apply sub_app; [exact Hk|apply IHr; exact Hr].
Qed.

Corollary resolve_use_pass_unique target href n :
  NoDup (ids n) -> NoDup (ids (resolve_use_pass target href n)).
Proof. apply sub_NoDup. apply resolve_use_pass_ids. Qed.

(* any number of passes (the while loop of _resolve_use) *)
Fixpoint resolve_use_passes (target : string -> option xnode) (href : xnode -> string) (k : nat) (n : xnode) : xnode :=
  match k with O => n | S k' => resolve_use_passes target href k' (resolve_use_pass target href n) end.
Theorem resolve_use_unique target href k : forall n,
  NoDup (ids n) -> NoDup (ids (resolve_use_passes target href k n)).
Proof. induction k as [|k IH]; intros n H; cbn [resolve_use_passes]; [exact H|]. apply IH. apply resolve_use_pass_unique. exact H. Qed.

(* splitting a stroked shape never duplicates its id *)
Definition some_ids (l : list (option string)) : list string :=
  flat_map (fun o => match o with Some s => [s] | None => [] end) l.
Theorem stroke_split_unique i fp before after :
  NoDup (some_ids (before ++ [i] ++ after)) ->
  NoDup (some_ids (before ++ stroke_split_ids i fp ++ after)).
Proof.
  apply sub_NoDup. unfold some_ids. rewrite !flat_map_app. apply sub_app; [apply sub_refl|]. apply sub_app; [|apply sub_refl].
  unfold stroke_split_ids. destruct fp; [|apply sub_refl]. cbn [flat_map app]. apply sub_nil_l.
Qed.

(* ---------------------------------------------------------------- orphan removal *)
Theorem remove_orphans_all_used els fills grads g :
  In g (remove_orphans els fills grads) ->
  exists i, g = Some i /\ exists f, In f fills /\ used_gradient els f = Some i.
Proof.
  unfold remove_orphans. intro H. apply filter_In in H. destruct H as [_ Hk].
  destruct g as [i|]; [|discriminate]. exists i. split; [reflexivity|].
  cbn [keep_gradient] in Hk. apply str_in_spec in Hk. unfold used_ids in Hk. apply in_flat_map in Hk.
  destruct Hk as [f [Hf Hi]]. exists f. split; [exact Hf|].
  destruct (used_gradient els f) as [j|]; [|contradiction]. destruct Hi as [->|[]]. reflexivity.
Qed.

(* ... and no referenced gradient is removed: no dangling url is introduced *)
Theorem remove_orphans_keeps_used els fills grads f i :
  In f fills -> used_gradient els f = Some i -> In (Some i) grads -> In (Some i) (remove_orphans els fills grads).
Proof.
  intros Hf Hu Hg. unfold remove_orphans. apply filter_In. split; [exact Hg|].
  cbn [keep_gradient]. apply str_in_spec. unfold used_ids. apply in_flat_map. exists f. split; [exact Hf|].
  rewrite Hu. left. reflexivity.
Qed.

Theorem remove_orphans_sub els fills grads : sub (remove_orphans els fills grads) grads.
Proof.
  unfold remove_orphans. induction grads as [|g r IH]; cbn [filter]; [constructor|].
  destruct (keep_gradient _ g); constructor; exact IH.
Qed.
