(* proofs/E3_forms.v — a rewrite that promises a target form reaches it; rounding moves no
   coordinate by more than half a unit in the last place. *)
From Coq Require Import ZArith Reals Lra Lia List Bool Ascii String FunctionalExtensionality.
From Pico Require Import Num PyStr G_geom G_transform G_meta G_types Walk PathSem E1_affine E3_walk E3_rewrites E3_shorthand.
Import ListNotations.
Local Open Scope char_scope.

Lemma to_upper_not_lower (c : ascii) : is_lower (to_upper c) = false.
Proof. destruct c as [[] [] [] [] [] [] [] []]; reflexivity. Qed.
Lemma to_lower_not_upper (c : ascii) : is_upper (to_lower c) = false.
Proof. destruct c as [[] [] [] [] [] [] [] []]; reflexivity. Qed.

(* ---- explicit_lines leaves no H/V ---- *)
Definition not_hv (c : cmdR) : Prop := to_upper (fst c) <> "H" /\ to_upper (fst c) <> "V".

Lemma explicit_letter s cur c (a : list R) pv : not_hv (f_explicit s cur c a pv).
Proof.
  unfold f_explicit, _explicit_lines_callback, not_hv.
  destruct (Ascii.eqb c "v") eqn:E1; [destruct (is_lower c); cbn; split; discriminate|].
  destruct (Ascii.eqb c "V") eqn:E2; [destruct (is_lower c); cbn; split; discriminate|].
  destruct (Ascii.eqb c "h") eqn:E3; [destruct (is_lower c); cbn; split; discriminate|].
  destruct (Ascii.eqb c "H") eqn:E4; [destruct (is_lower c); cbn; split; discriminate|].
  cbn [fst]. apply Ascii.eqb_neq in E1, E2, E3, E4.
  destruct c as [[] [] [] [] [] [] [] []]; cbn; split; try discriminate; congruence.
Qed.

Theorem explicit_lines_form (p : pathR) : Forall not_hv (explicit_lines (N:=ROps) p).
Proof.
  unfold explicit_lines. rewrite explicit_is_lift1. apply walk1_forall. apply explicit_letter.
Qed.

(* ---- expand_shorthand leaves no S/T ---- *)
Definition not_st (c : cmdR) : Prop := to_upper (fst c) <> "S" /\ to_upper (fst c) <> "T".

Lemma expand_letter s cur c (a : list R) pv : In c letters -> not_st (f_expand s cur c a pv).
Proof.
  intro Hl. unfold f_expand, cb_expand_shorthand, not_st.
  destruct pv as [[[pp pc] pa]|];
    split_letters Hl; unfold expand_shorthand_callback, _relative_to_absolute, _rewrite_coords;
    crunch; cbn [fst snd]; crunch;
    repeat match goal with
           | |- context [match ?e with pair _ _ => _ end] => destruct e
           | |- context [if ?b then _ else _] => destruct b
           end; cbn [fst snd]; crunch; split; discriminate.
Qed.

Theorem expand_shorthand_form (p : pathR) :
  Forall (fun c => In (fst c) letters) p -> Forall not_st (expand_shorthand (N:=ROps) p).
Proof.
  intro H. unfold expand_shorthand. rewrite expand_is_lift1. apply walk1_forall_wf; [|exact H].
  intros. apply expand_letter. assumption.
Qed.

(* ---- absolute leaves no lowercase command ---- *)
Lemma rewrite_coords_letter conv (f : R -> R) cur c (a : list R) :
  fst (_rewrite_coords ROps conv f cur c a) = conv c \/ (fst (_rewrite_coords ROps conv f cur c a) = c /\ c = conv c).
Proof.
  unfold _rewrite_coords. destruct (cmd_coords c).
  destruct (negb (Ascii.eqb c (conv c))) eqn:E; cbn [fst]; [left; reflexivity|].
  right. apply negb_false_iff, Ascii.eqb_eq in E. split; [reflexivity|exact E].
Qed.

Lemma explicit_keeps_case s cur c (a : list R) c2 a2 :
  _explicit_lines_callback ROps s cur c a = [(c2, a2)] -> is_lower c2 = is_lower c.
Proof.
  unfold _explicit_lines_callback.
  destruct (Ascii.eqb c "v") eqn:E1; [apply Ascii.eqb_eq in E1; subst; intro H; injection H as <- _; reflexivity|].
  destruct (Ascii.eqb c "V") eqn:E2; [apply Ascii.eqb_eq in E2; subst; intro H; injection H as <- _; reflexivity|].
  destruct (Ascii.eqb c "h") eqn:E3; [apply Ascii.eqb_eq in E3; subst; intro H; injection H as <- _; reflexivity|].
  destruct (Ascii.eqb c "H") eqn:E4; [apply Ascii.eqb_eq in E4; subst; intro H; injection H as <- _; reflexivity|].
  intro H; injection H as <- _; reflexivity.
Qed.

Lemma move_endpoint_keeps_case cur c (a : list R) e :
  is_lower (fst (_move_endpoint ROps cur c a e)) = is_lower c.
Proof.
  unfold _move_endpoint.
  destruct (_explicit_lines_callback ROps None cur c a) as [|[c2 a2] [|x r]] eqn:E.
  - destruct (cmd_coords c). reflexivity.
  - destruct (cmd_coords c2). cbn [fst]. eapply explicit_keeps_case; exact E.
  - destruct (cmd_coords c). reflexivity.
Qed.

Definition is_abs_cmd (c : cmdR) : Prop := is_lower (fst c) = false.

Lemma absolute_letter s cur c (a : list R) pv : is_abs_cmd (f_rewrite (_relative_to_absolute ROps) s cur c a pv).
Proof.
  unfold f_rewrite, rewrite_callback, is_abs_cmd.
  destruct (_relative_to_absolute ROps cur c a) as [c1 a1] eqn:E.
  assert (H1 : is_lower c1 = false).
  { unfold _relative_to_absolute in E.
    destruct (rewrite_coords_letter (fun cmd : ascii => to_upper cmd) (fun curr_scaler : R => curr_scaler) cur c a) as [H|[H H']];
      change (T ROps) with R in *; rewrite E in H; cbn [fst] in H; subst c1.
    - apply to_upper_not_lower.
    - rewrite H'. apply to_upper_not_lower. }
  destruct (negb _ && _).
  - pose proof (move_endpoint_keeps_case cur c1 a1 s) as Hm.
    destruct (_move_endpoint ROps cur c1 a1 s) as [c3 a3]. cbn [fst] in *. rewrite Hm. exact H1.
  - exact H1.
Qed.

Theorem absolute_form (p : pathR) : Forall is_abs_cmd (absolute (N:=ROps) p).
Proof.
  unfold absolute. rewrite rewrite_is_lift1. apply walk1_forall. apply absolute_letter.
Qed.

(* ---- rounding ---- *)
Theorem round_path_close (nd : Z) (p : pathR) :
  Forall2 (fun c c' => fst c = fst c' /\
                       Forall2 (fun x y => Rabs (y - x) <= / Rpow10 nd / 2)%R (snd c) (snd c'))
          p (round_path (N:=ROps) nd p).
Proof.
  induction p as [|[c a] r IH]; cbn [round_path map]; constructor; [|exact IH].
  cbn [fst snd]. split; [reflexivity|].
  induction a as [|x a IHa]; cbn [map]; constructor; [|exact IHa].
  apply Rround_nd_close.
Qed.
