(* proofs/E2_pins.v — the hand-written scanners (model/Lex.v, PathParse.v, TransformParse.v) were
   written for exactly these regular expressions and lexer tables.  The strings on the left are
   regenerated from the current source on every run; if one changes, these (trivial) obligations
   break and the check proceeds to its search step. *)
From Coq Require Import String List.
From Pico Require Import G_regex.
Import ListNotations.
Local Open Scope string_scope.

Lemma pin_cmd_re : CMD_RE_src = "([mzlhvcsqtaMZLHVCSQTA])".
Proof. reflexivity. Qed.
Lemma pin_separator_re : SEPARATOR_RE_src = "[, ]+".
Proof. reflexivity. Qed.
Lemma pin_float_re : FLOAT_RE_src = "[-+]?(?:(?:[0-9]+)(?:\.[0-9]+)?|(?:\.[0-9]+))(?:[eE][-+]?[0-9]+)?".
Proof. reflexivity. Qed.
Lemma pin_bool_re : BOOL_RE_src = "^[01]".
Proof. reflexivity. Qed.
Lemma pin_arc_types : ARC_ARGUMENT_REGEXES = "FFFBBFF" /\ ARC_ARGUMENT_CONVERTERS = "fffiiff".
Proof. split; reflexivity. Qed.
Lemma pin_implicit_repeat : IMPLICIT_REPEAT_CMD = [("M", "L"); ("m", "l")].
Proof. reflexivity. Qed.
Lemma pin_transform_res :
  TRANSFORM_RE_srcs = ["(?i)(matrix|translate|scale|rotate|skewX|skewY)\s*\(([^)]*)\)"; "\s*[,\s]\s*"].
Proof. reflexivity. Qed.
