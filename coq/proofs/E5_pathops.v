(* proofs/E5_pathops.v — what picosvg's pathops wrappers compute, RELATIVE TO the stated contract
   of the engine (C13).  `inside p r pt` is the interior of path p under fill rule r; it and the
   engine are Section variables: nothing here is a claim about Skia itself. *)
From Coq Require Import ZArith Reals List Bool Ascii String.
From Pico Require Import Num PyStr G_geom G_transform Walk Skia E1_affine E3_walk.
Import ListNotations.

Section Contract.
  Variable inside : pathR -> rule -> Pt -> Prop.
  Variable sk : @skia ROps.

  Definition opsem (k : opkind) (a b : Prop) : Prop :=
    match k with OpUnion => a \/ b | OpIntersection => a /\ b | OpDifference => a /\ ~ b end.

  (* THE ASSUMED CONTRACT OF THE ENGINE *)
  (* a binary op yields the set operation of the operands' interiors, each under its own rule,
     and the result reads the same under both rules (fix_winding) *)
  Hypothesis op_contract : forall k p1 r1 p2 r2 q,
    sk_op sk k p1 r1 p2 r2 = Some q -> forall r pt, inside q r pt <-> opsem k (inside p1 r1 pt) (inside p2 r2 pt).
  (* simplify preserves the interior and makes it rule-independent *)
  Hypothesis simplify_contract : forall p r q,
    sk_simplify sk p r = Some q -> forall r' pt, inside q r' pt <-> inside p r pt.

  Definition fold_sem (k : opkind) (pt : Pt) (first : Prop) (rest : list (pathR * rule)) : Prop :=
    fold_left (fun acc o => opsem k acc (inside (fst o) (snd o) pt)) rest first.

  Lemma opsem_iff k a a' b : (a <-> a') -> (opsem k a b <-> opsem k a' b).
  Proof. destruct k; cbn; tauto. Qed.

  Lemma fold_sem_iff k pt rest : forall a a', (a <-> a') -> (fold_sem k pt a rest <-> fold_sem k pt a' rest).
  Proof.
    induction rest as [|o rest IH]; intros a a' H; cbn [fold_sem fold_left]; [exact H|].
    apply IH. apply opsem_iff. exact H.
  Qed.

  Lemma fold_ops_sem k rest : forall acc accr q,
    fold_ops sk k acc accr rest = Ok q ->
    forall pt, inside q (match rest with [] => accr | _ => NonZero end) pt <-> fold_sem k pt (inside acc accr pt) rest.
  Proof.
    induction rest as [|[p r] rest IH]; intros acc accr q H pt; cbn [fold_ops] in H.
    - injection H as <-. cbn. tauto.
    - destruct (negb (skia_path_ok p)); [discriminate|].
      destruct (sk_op sk k acc accr p r) as [acc'|] eqn:E; [|discriminate].
      specialize (IH acc' NonZero q H pt).
      cbn [fold_sem fold_left fst snd].
      assert (Hr : inside q NonZero pt <-> inside q (match rest with [] => NonZero | _ => NonZero end) pt) by (destruct rest; tauto).
      rewrite Hr, IH. apply fold_sem_iff. apply (op_contract k acc accr p r acc' E).
  Qed.

  (* union / intersection / difference of 1..n operands, each under its own fill rule; the result's
     interior is the same under either rule *)
  Theorem do_pathop_sem k p0 r0 rest q :
    do_pathop sk k ((p0, r0) :: rest) = Ok (Some q) ->
    forall r pt, inside q r pt <-> fold_sem k pt (inside p0 r0 pt) rest.
  Proof.
    unfold do_pathop. destruct (negb (skia_path_ok p0)); [discriminate|].
    destruct (fold_ops sk k p0 r0 rest) as [acc|e] eqn:E; [|discriminate].
    destruct (sk_simplify sk acc (match rest with [] => r0 | _ => NonZero end)) as [q'|] eqn:Es; [|discriminate].
    intro H. injection H as <-. intros r pt.
    rewrite (simplify_contract _ _ _ Es r pt).
    exact (fold_ops_sem k rest p0 r0 acc E pt).
  Qed.

  (* no result at all for an empty operand list; engine failures surface as errors, never as a path *)
  Lemma do_pathop_empty k : do_pathop sk k [] = Ok None.
  Proof. reflexivity. Qed.

  Theorem do_pathop_fails_closed k p0 r0 rest acc :
    skia_path_ok p0 = true -> fold_ops sk k p0 r0 rest = Ok acc ->
    sk_simplify sk acc (match rest with [] => r0 | _ => NonZero end) = None ->
    do_pathop sk k ((p0, r0) :: rest) = Err EOther.
  Proof. intros H0 Hf Hs. unfold do_pathop. rewrite H0, Hf, Hs. reflexivity. Qed.

  Theorem fold_ops_fails_closed k acc accr p r rest :
    skia_path_ok p = true -> sk_op sk k acc accr p r = None -> fold_ops sk k acc accr ((p, r) :: rest) = Err EOther.
  Proof. intros H0 H. cbn [fold_ops]. rewrite H0, H. reflexivity. Qed.

  Theorem remove_overlaps_sem p r q :
    remove_overlaps sk p r = Ok q -> forall r' pt, inside q r' pt <-> inside p r pt.
  Proof.
    unfold remove_overlaps. destruct (negb (skia_path_ok p)); [discriminate|].
    destruct (sk_simplify sk p r) as [q'|] eqn:E; [|discriminate]. intro H. injection H as <-.
    exact (simplify_contract p r q' E).
  Qed.

  (* stroke(): when the engine cannot simplify the outline the unsimplified outline is returned,
     whose nonzero interior is by definition the same *)
  Theorem stroke_fallback p cap join w m tol ds off q :
    stroke_path sk p cap join w m tol ds off = Ok q ->
    forall pt, inside q NonZero pt <-> inside (sk_stroke_raw sk p cap join w m tol ds off) NonZero pt.
  Proof.
    unfold stroke_path. destruct (negb (cap_ok cap) || negb (join_ok join)); [discriminate|].
    destruct (negb (skia_path_ok p)); [discriminate|].
    destruct (sk_simplify sk _ NonZero) as [q'|] eqn:E; intro H; injection H as <-; intro pt.
    - exact (simplify_contract _ _ _ E NonZero pt).
    - tauto.
  Qed.

  (* only M L Q C Z reach the engine *)
  Theorem skia_accepts_only_MLQCZ k ops : forall q,
    do_pathop sk k ops = Ok (Some q) -> Forall (fun o => skia_path_ok (fst o) = true) ops.
  Proof.
    destruct ops as [|[p0 r0] rest]; [discriminate|]. intros q H. unfold do_pathop in H.
    destruct (skia_path_ok p0) eqn:E0; cbn [negb] in H; [|discriminate].
    constructor; [exact E0|].
    destruct (fold_ops sk k p0 r0 rest) as [acc|e] eqn:Ef; [|discriminate]. clear H.
    clear E0. revert p0 r0 acc Ef. induction rest as [|[p r] rest IH]; intros p0 r0 acc Ef; [constructor|].
    cbn [fold_ops] in Ef. destruct (skia_path_ok p) eqn:Ep; cbn [negb] in Ef; [|discriminate].
    destruct (sk_op sk k p0 r0 p r) as [a|]; [|discriminate].
    constructor; [exact Ep|]. exact (IH a NonZero acc Ef).
  Qed.
End Contract.
