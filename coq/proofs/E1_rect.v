(* proofs/E1_rect.v — Rect.intersection and Rect.union (generated from geometric_types.py) are the
   geometric intersection / bounding union of axis-aligned rectangles (C19). *)
From Coq Require Import ZArith Reals Lra Lia List Bool String.
From Pico Require Import Num PyStr G_geom E1_affine E1_viewport.
Import ListNotations.
Local Open Scope R_scope.

Definition in_rect (r : Rct) (x y : R) : Prop :=
  Rect_x r <= x <= Rect_x r + Rect_w r /\ Rect_y r <= y <= Rect_y r + Rect_h r.
Definition in_rect_open (r : Rct) (x y : R) : Prop :=
  Rect_x r < x < Rect_x r + Rect_w r /\ Rect_y r < y < Rect_y r + Rect_h r.

Lemma overlap_spec s1 e1 s2 e2 :
  let '(a, b) := Rect_overlap ROps s1 e1 s2 e2 in
  (Rmax s1 s2 < Rmin e1 e2 -> a = Rmax s1 s2 /\ b = Rmin e1 e2) /\
  (Rmin e1 e2 <= Rmax s1 s2 -> a = 0 /\ b = 0).
Proof.
  unfold Rect_overlap. rewrite pymax_R, pymin_R. cbn [leb ROps of_Z].
  destruct (Rleb (Rmin e1 e2) (Rmax s1 s2)) eqn:E.
  - apply Rleb_true in E. split; [lra|auto].
  - apply Rleb_false in E. split; [auto|lra].
Qed.

(* the result is a rectangle exactly when the overlap has positive area, and then it is the
   set intersection; sizes are assumed non-negative *)
Theorem intersection_some (A B Rr : Rct) :
  0 <= Rect_w A -> 0 <= Rect_h A -> 0 <= Rect_w B -> 0 <= Rect_h B ->
  Rect_intersection ROps A B = Some Rr ->
  0 < Rect_w Rr /\ 0 < Rect_h Rr /\
  forall x y, in_rect Rr x y <-> in_rect A x y /\ in_rect B x y.
Proof.
  intros HwA HhA HwB HhB. unfold Rect_intersection. cbn [add ROps].
  pose proof (overlap_spec (Rect_x A) (Rect_x A + Rect_w A) (Rect_x B) (Rect_x B + Rect_w B)) as Hx.
  pose proof (overlap_spec (Rect_y A) (Rect_y A + Rect_h A) (Rect_y B) (Rect_y B + Rect_h B)) as Hy.
  destruct (Rect_overlap ROps (Rect_x A) (Rect_x A + Rect_w A) (Rect_x B) (Rect_x B + Rect_w B)) as [x1 x2].
  destruct (Rect_overlap ROps (Rect_y A) (Rect_y A + Rect_h A) (Rect_y B) (Rect_y B + Rect_h B)) as [y1 y2].
  cbn [eqb sub ROps].
  destruct (negb (Reqb x1 x2) && negb (Reqb y1 y2)) eqn:E; [|discriminate].
  intro H. injection H as <-. apply andb_true_iff in E. destruct E as [E1 E2].
  apply negb_true_iff in E1, E2. apply Reqb_false in E1, E2.
  destruct Hx as [Hx1 Hx2]. destruct Hy as [Hy1 Hy2].
  destruct (Rlt_dec (Rmax (Rect_x A) (Rect_x B)) (Rmin (Rect_x A + Rect_w A) (Rect_x B + Rect_w B))) as [Lx|Lx];
    [|destruct Hx2 as [-> ->]; [lra|contradiction E1; reflexivity]].
  destruct (Rlt_dec (Rmax (Rect_y A) (Rect_y B)) (Rmin (Rect_y A + Rect_h A) (Rect_y B + Rect_h B))) as [Ly|Ly];
    [|destruct Hy2 as [-> ->]; [lra|contradiction E2; reflexivity]].
  destruct (Hx1 Lx) as [-> ->]. destruct (Hy1 Ly) as [-> ->].
  cbn [Rect_w Rect_h Rect_x Rect_y]. split; [lra|split; [lra|]].
  intros x y. unfold in_rect. cbn [Rect_w Rect_h Rect_x Rect_y].
  unfold Rmax, Rmin in *.
  repeat match goal with |- context [Rle_dec ?a ?b] => destruct (Rle_dec a b) | H : context [Rle_dec ?a ?b] |- _ => destruct (Rle_dec a b) end; lra.
Qed.

Theorem intersection_some_open (A B Rr : Rct) :
  0 <= Rect_w A -> 0 <= Rect_h A -> 0 <= Rect_w B -> 0 <= Rect_h B ->
  Rect_intersection ROps A B = Some Rr ->
  0 < Rect_w Rr /\ 0 < Rect_h Rr /\
  forall x y, in_rect_open Rr x y <-> in_rect_open A x y /\ in_rect_open B x y.
Proof.
  intros HwA HhA HwB HhB. unfold Rect_intersection. cbn [add ROps].
  pose proof (overlap_spec (Rect_x A) (Rect_x A + Rect_w A) (Rect_x B) (Rect_x B + Rect_w B)) as Hx.
  pose proof (overlap_spec (Rect_y A) (Rect_y A + Rect_h A) (Rect_y B) (Rect_y B + Rect_h B)) as Hy.
  destruct (Rect_overlap ROps (Rect_x A) (Rect_x A + Rect_w A) (Rect_x B) (Rect_x B + Rect_w B)) as [x1 x2].
  destruct (Rect_overlap ROps (Rect_y A) (Rect_y A + Rect_h A) (Rect_y B) (Rect_y B + Rect_h B)) as [y1 y2].
  cbn [eqb sub ROps].
  destruct (negb (Reqb x1 x2) && negb (Reqb y1 y2)) eqn:E; [|discriminate].
  intro H. injection H as <-. apply andb_true_iff in E. destruct E as [E1 E2].
  apply negb_true_iff in E1, E2. apply Reqb_false in E1, E2.
  destruct Hx as [Hx1 Hx2]. destruct Hy as [Hy1 Hy2].
  destruct (Rlt_dec (Rmax (Rect_x A) (Rect_x B)) (Rmin (Rect_x A + Rect_w A) (Rect_x B + Rect_w B))) as [Lx|Lx];
    [|destruct Hx2 as [-> ->]; [lra|contradiction E1; reflexivity]].
  destruct (Rlt_dec (Rmax (Rect_y A) (Rect_y B)) (Rmin (Rect_y A + Rect_h A) (Rect_y B + Rect_h B))) as [Ly|Ly];
    [|destruct Hy2 as [-> ->]; [lra|contradiction E2; reflexivity]].
  destruct (Hx1 Lx) as [-> ->]. destruct (Hy1 Ly) as [-> ->].
  cbn [Rect_w Rect_h Rect_x Rect_y]. split; [lra|split; [lra|]].
  intros x y. unfold in_rect_open. cbn [Rect_w Rect_h Rect_x Rect_y].
  unfold Rmax, Rmin in *.
  repeat match goal with |- context [Rle_dec ?a ?b] => destruct (Rle_dec a b) | H : context [Rle_dec ?a ?b] |- _ => destruct (Rle_dec a b) end; lra.
Qed.

Theorem intersection_none (A B : Rct) :
  0 <= Rect_w A -> 0 <= Rect_h A -> 0 <= Rect_w B -> 0 <= Rect_h B ->
  Rect_intersection ROps A B = None ->
  forall x y, ~ (in_rect_open A x y /\ in_rect_open B x y).
Proof.
  intros HwA HhA HwB HhB. unfold Rect_intersection. cbn [add ROps].
  pose proof (overlap_spec (Rect_x A) (Rect_x A + Rect_w A) (Rect_x B) (Rect_x B + Rect_w B)) as Hx.
  pose proof (overlap_spec (Rect_y A) (Rect_y A + Rect_h A) (Rect_y B) (Rect_y B + Rect_h B)) as Hy.
  destruct (Rect_overlap ROps (Rect_x A) (Rect_x A + Rect_w A) (Rect_x B) (Rect_x B + Rect_w B)) as [x1 x2].
  destruct (Rect_overlap ROps (Rect_y A) (Rect_y A + Rect_h A) (Rect_y B) (Rect_y B + Rect_h B)) as [y1 y2].
  cbn [eqb sub ROps].
  destruct (negb (Reqb x1 x2) && negb (Reqb y1 y2)) eqn:E; [discriminate|].
  intros _ x y [[HAx HAy] [HBx HBy]].
  destruct Hx as [Hx1 Hx2]. destruct Hy as [Hy1 Hy2].
  assert (Lx : Rmax (Rect_x A) (Rect_x B) < Rmin (Rect_x A + Rect_w A) (Rect_x B + Rect_w B)).
  { unfold Rmax, Rmin. destruct (Rle_dec (Rect_x A) (Rect_x B)); destruct (Rle_dec (Rect_x A + Rect_w A) (Rect_x B + Rect_w B)); lra. }
  assert (Ly : Rmax (Rect_y A) (Rect_y B) < Rmin (Rect_y A + Rect_h A) (Rect_y B + Rect_h B)).
  { unfold Rmax, Rmin. destruct (Rle_dec (Rect_y A) (Rect_y B)); destruct (Rle_dec (Rect_y A + Rect_h A) (Rect_y B + Rect_h B)); lra. }
  destruct (Hx1 Lx) as [-> ->]. destruct (Hy1 Ly) as [-> ->].
  apply andb_false_iff in E. destruct E as [E|E]; apply negb_false_iff in E; apply Reqb_true in E; lra.
Qed.

(* union: the least rectangle containing both *)
Theorem union_spec (A B : Rct) :
  0 <= Rect_w A -> 0 <= Rect_h A -> 0 <= Rect_w B -> 0 <= Rect_h B ->
  let U := Rect_union ROps A B in
  Rect_x U = Rmin (Rect_x A) (Rect_x B) /\ Rect_y U = Rmin (Rect_y A) (Rect_y B) /\
  Rect_x U + Rect_w U = Rmax (Rect_x A + Rect_w A) (Rect_x B + Rect_w B) /\
  Rect_y U + Rect_h U = Rmax (Rect_y A + Rect_h A) (Rect_y B + Rect_h B) /\
  (forall x y, in_rect A x y \/ in_rect B x y -> in_rect U x y).
Proof.
  intros HwA HhA HwB HhB U. unfold U, Rect_union, Rect_x_max, Rect_y_max.
  rewrite !pymax_R, !pymin_R. cbn [add sub ROps Rect_x Rect_y Rect_w Rect_h].
  split; [reflexivity|split; [reflexivity|split; [ring|split; [ring|]]]].
  intros px py. unfold in_rect. cbn [Rect_x Rect_y Rect_w Rect_h].
  unfold Rmax, Rmin.
  repeat match goal with |- context [Rle_dec ?a ?b] => destruct (Rle_dec a b) end; lra.
Qed.
