(* proofs/E4_bezier.v — the cubic that approximates a circular arc of angle d with
   control-point distance k = 4/3 tan(d/4): closed-form radial error and its bound.
   Pure real analysis; no reference to generated code. *)
From Coq Require Import Reals Lra Lia.
From Interval Require Import Tactic.
Local Open Scope R_scope.

Lemma Rabs_le_inv x a : Rabs x <= a -> - a <= x <= a.
Proof. unfold Rabs. destruct (Rcase_abs x); lra. Qed.

Definition bez1 (p0 p1 p2 p3 s : R) : R :=
  (1 - s) ^ 3 * p0 + 3 * (1 - s) ^ 2 * s * p1 + 3 * (1 - s) * s ^ 2 * p2 + s ^ 3 * p3.

Lemma cos_double_tan x : cos x <> 0 -> cos (2 * x) = (1 - (tan x)²) / (1 + (tan x)²).
Proof.
  intro Hc. rewrite cos_2a_cos. unfold tan, Rsqr.
  pose proof (sin2_cos2 x) as H. unfold Rsqr in H.
  set (c := cos x) in *. set (s := sin x) in *.
  replace ((1 - s / c * (s / c)) / (1 + s / c * (s / c))) with ((c * c - s * s) / (s * s + c * c)).
  2:{ assert (Hne : s * s + c * c <> 0) by (rewrite H; lra).
      field. repeat split; try exact Hc; intro Hz; apply Hne; lra. }
  rewrite H. replace (s * s) with (1 - c * c) by lra. field.
Qed.

Lemma sin_double_tan x : cos x <> 0 -> sin (2 * x) = 2 * tan x / (1 + (tan x)²).
Proof.
  intro Hc. rewrite sin_2a. unfold tan, Rsqr.
  pose proof (sin2_cos2 x) as H. unfold Rsqr in H.
  set (c := cos x) in *. set (s := sin x) in *.
  replace (2 * (s / c) / (1 + s / c * (s / c))) with (2 * s * c / (s * s + c * c)).
  2:{ assert (Hne : s * s + c * c <> 0) by (rewrite H; lra).
      field. repeat split; try exact Hc; intro Hz; apply Hne; lra. }
  rewrite H. field.
Qed.

(* cos d and sin d as rational functions of u = tan (d/4) *)
Lemma cos_quad_tan d : cos (d / 4) <> 0 -> cos (d / 2) <> 0 ->
  let u := tan (d / 4) in cos d = (1 - 6 * u ^ 2 + u ^ 4) / (1 + u ^ 2) ^ 2.
Proof.
  intros H4 H2 u.
  replace d with (2 * (d / 2)) at 1 by field. rewrite cos_2a.
  replace (d / 2) with (2 * (d / 4)) by field.
  rewrite (cos_double_tan _ H4), (sin_double_tan _ H4). fold u. unfold Rsqr.
  assert (1 + u * u <> 0) by nra. field. nra.
Qed.

Lemma sin_quad_tan d : cos (d / 4) <> 0 -> cos (d / 2) <> 0 ->
  let u := tan (d / 4) in sin d = 4 * u * (1 - u ^ 2) / (1 + u ^ 2) ^ 2.
Proof.
  intros H4 H2 u.
  replace d with (2 * (d / 2)) at 1 by field. rewrite sin_2a.
  replace (d / 2) with (2 * (d / 4)) by field.
  rewrite (cos_double_tan _ H4), (sin_double_tan _ H4). fold u. unfold Rsqr.
  assert (1 + u * u <> 0) by nra. field. nra.
Qed.

(* The cubic from angle th0 to th0 + d on the unit circle, as the code builds it. *)
Section UnitArc.
  Variables th0 d : R.
  Let u := tan (d / 4).
  Let k := 4 / 3 * u.
  Let th1 := th0 + d.
  Definition arcX (s : R) : R :=
    bez1 (cos th0) (cos th0 - k * sin th0) (cos th1 + k * sin th1) (cos th1) s.
  Definition arcY (s : R) : R :=
    bez1 (sin th0) (sin th0 + k * cos th0) (sin th1 - k * cos th1) (sin th1) s.

  Theorem unit_arc_error_identity s :
    cos (d / 4) <> 0 -> cos (d / 2) <> 0 ->
    (arcX s) ^ 2 + (arcY s) ^ 2 - 1 =
    16 * s ^ 2 * (1 - s) ^ 2 * (2 * s - 1) ^ 2 * u ^ 6 / (1 + u ^ 2) ^ 2.
  Proof.
    intros H4 H2.
    unfold arcX, arcY, bez1, th1. rewrite cos_plus, sin_plus.
    pose proof (sin2_cos2 th0) as H0. unfold Rsqr in H0.
    set (c0 := cos th0) in *. set (s0 := sin th0) in *.
    (* rotate back by th0: the squared norm does not depend on th0 *)
    set (cd := cos d). set (sd := sin d).
    set (X' := (1 - s) ^ 3 * 1 + 3 * (1 - s) ^ 2 * s * 1 + 3 * (1 - s) * s ^ 2 * (cd + k * sd) + s ^ 3 * cd).
    set (Y' := (1 - s) ^ 3 * 0 + 3 * (1 - s) ^ 2 * s * k + 3 * (1 - s) * s ^ 2 * (sd - k * cd) + s ^ 3 * sd).
    match goal with |- ?A ^ 2 + ?B ^ 2 - 1 = _ =>
      replace (A ^ 2 + B ^ 2) with ((s0 * s0 + c0 * c0) * (X' ^ 2 + Y' ^ 2)) by (unfold X', Y'; ring) end.
    rewrite H0. unfold X', Y', cd, sd, k.
    rewrite (cos_quad_tan d H4 H2), (sin_quad_tan d H4 H2). fold u.
    assert (1 + u ^ 2 <> 0) by nra. field. exact H.
  Qed.
End UnitArc.

(* the polynomial part: s^2 (1-s)^2 (2s-1)^2 <= 1/108 on [0,1] *)
Lemma poly_bound s : 0 <= s <= 1 -> 0 <= s ^ 2 * (1 - s) ^ 2 * (2 * s - 1) ^ 2 <= 1 / 108.
Proof.
  intros [H0 H1]. split.
  - replace (s ^ 2 * (1 - s) ^ 2 * (2 * s - 1) ^ 2) with ((s * (1 - s) * (2 * s - 1)) ^ 2) by ring. apply pow2_ge_0.
  - (* with w = s(1-s) in [0,1/4]: w^2 (1-4w) <= 1/108, since 1/108 - w^2(1-4w) = 4 (w - 1/6)^2 (w + 1/12) *)
    set (w := s * (1 - s)).
    assert (Hw : 0 <= w <= 1 / 4).
    { unfold w. split; [apply Rmult_le_pos; lra|].
      assert (Hq : 1 / 4 - s * (1 - s) = (s - 1 / 2) ^ 2) by field.
      pose proof (pow2_ge_0 (s - 1 / 2)). lra. }
    replace (s ^ 2 * (1 - s) ^ 2 * (2 * s - 1) ^ 2) with (w ^ 2 * (1 - 4 * w)) by (unfold w; ring).
    assert (1 / 108 - w ^ 2 * (1 - 4 * w) = 4 * (w - 1 / 6) ^ 2 * (w + 1 / 12)) by field.
    assert (0 <= 4 * (w - 1 / 6) ^ 2 * (w + 1 / 12)).
    { apply Rmult_le_pos; [apply Rmult_le_pos; [lra|apply pow2_ge_0]|lra]. }
    lra.
Qed.

Definition seg_angle_max : R := PI / 2 + 1 / 1000.

Lemma tan_quarter_bound x : Rabs x <= seg_angle_max / 4 -> Rabs (tan x) <= 4146 / 10000.
Proof.
  unfold seg_angle_max. intro H. apply Rabs_le_inv in H. apply Rabs_le.
  split; interval with (i_bisect x, i_prec 40).
Qed.

Lemma u_part_bound u : Rabs u <= 4146 / 10000 -> 0 <= u ^ 6 / (1 + u ^ 2) ^ 2 <= 37 / 10000.
Proof.
  intro H. apply Rabs_le_inv in H. split.
  - apply Rmult_le_pos; [replace (u ^ 6) with ((u ^ 3) ^ 2) by ring; apply pow2_ge_0|].
    left. apply Rinv_0_lt_compat. nra.
  - interval with (i_bisect u, i_prec 40).
Qed.

(* the radial error of one segment: 1 <= |B(s)|^2 <= 1 + 5.5e-4, hence |B(s)| within 0.03% above 1 *)
Theorem unit_arc_radial_error th0 d s :
  Rabs d <= seg_angle_max -> 0 <= s <= 1 ->
  1 <= (arcX th0 d s) ^ 2 + (arcY th0 d s) ^ 2 <= (1 + 3 / 10000) ^ 2.
Proof.
  intros Hd Hs.
  assert (Hq : Rabs (d / 4) <= seg_angle_max / 4).
  { unfold Rdiv. rewrite Rabs_mult. rewrite (Rabs_pos_eq (/ 4)) by lra. lra. }
  assert (Hpi : 3 < PI < 4) by (split; interval).
  assert (H4 : cos (d / 4) <> 0).
  { apply Rgt_not_eq. apply cos_gt_0; unfold seg_angle_max in Hq; apply Rabs_le_inv in Hq; lra. }
  assert (H2 : cos (d / 2) <> 0).
  { apply Rgt_not_eq. unfold seg_angle_max in Hd. apply Rabs_le_inv in Hd. apply cos_gt_0; lra. }
  pose proof (unit_arc_error_identity th0 d s H4 H2) as E.
  pose proof (poly_bound s Hs) as [P0 P1].
  pose proof (u_part_bound _ (tan_quarter_bound _ Hq)) as [U0 U1].
  set (u := tan (d / 4)) in *.
  set (P := s ^ 2 * (1 - s) ^ 2 * (2 * s - 1) ^ 2) in *.
  set (U := u ^ 6 / (1 + u ^ 2) ^ 2) in *.
  assert (E' : (arcX th0 d s) ^ 2 + (arcY th0 d s) ^ 2 - 1 = 16 * P * U).
  { rewrite E. unfold P, U. field. nra. }
  assert (0 <= P * U <= 1 / 108 * (37 / 10000)) by (split; nra).
  split; nra.
Qed.
