(* proofs/E1_viewport.v — Affine2D.rect_to_rect implements the SVG viewport mapping
   (preserveAspectRatio align x meet|slice), and decompose_translation recomposes. *)
From Coq Require Import ZArith Reals Lra Lia List Bool String.
From Pico Require Import Num PyStr G_geom G_transform E1_affine.
Import ListNotations.
Local Open Scope R_scope.

Notation Rct := (Rect ROps).
Notation mkR := (@mk_Rect ROps).

Lemma pymax_R (a b : R) : @pymax ROps a b = Rmax a b.
Proof.
  unfold pymax, Rmax. cbn [ltb ROps]. unfold Rltb.
  destruct (Rlt_dec a b), (Rle_dec a b); try reflexivity; lra.
Qed.
Lemma pymin_R (a b : R) : @pymin ROps a b = Rmin a b.
Proof.
  unfold pymin, Rmin. cbn [ltb ROps]. unfold Rltb.
  destruct (Rlt_dec b a), (Rle_dec a b); try reflexivity; lra.
Qed.

Inductive align1 := AMin | AMid | AMax.

Definition align_name (xa ya : align1) : string :=
  (match xa with AMin => "xMin" | AMid => "xMid" | AMax => "xMax" end ++
   match ya with AMin => "YMin" | AMid => "YMid" | AMax => "YMax" end)%string.

Definition par_string (xa ya : align1) (slice : bool) : string :=
  (align_name xa ya ++ (if slice then " slice" else " meet"))%string.

(* the SVG 1.1 §7.8 viewport transform: uniform scale, then align *)
Definition align_off (a : align1) (d0 dlen s0 slen s : R) : R :=
  d0 - s0 * s + match a with AMin => 0 | AMid => (dlen - slen * s) / 2 | AMax => dlen - slen * s end.

Definition spec_viewport (src dst : Rct) (xa ya : align1) (slice : bool) : Aff :=
  let sx := Rect_w dst / Rect_w src in
  let sy := Rect_h dst / Rect_h src in
  let s := if slice then Rmax sx sy else Rmin sx sy in
  mkA s 0 0 s (align_off xa (Rect_x dst) (Rect_w dst) (Rect_x src) (Rect_w src) s)
              (align_off ya (Rect_y dst) (Rect_h dst) (Rect_y src) (Rect_h src) s).

Lemma rect_empty_false (r : Rct) : Rect_w r <> 0 -> Rect_h r <> 0 -> Rect_empty ROps r = false.
Proof.
  intros Hw Hh. unfold Rect_empty. cbn [eqb ROps of_Z].
  apply orb_false_iff. split; apply Reqb_false; assumption.
Qed.

Ltac rr_strings :=
  match goal with
  | |- context [str_partition_space ?s] =>
      let v := eval vm_compute in (str_partition_space s) in
      change (str_partition_space s) with v; cbv beta iota
  end.

Theorem rect_to_rect_aligned (src dst : Rct) xa ya slice :
  Rect_w src <> 0 -> Rect_h src <> 0 -> Rect_w dst <> 0 -> Rect_h dst <> 0 ->
  Affine2D_rect_to_rect ROps src dst (par_string xa ya slice) = Ok (spec_viewport src dst xa ya slice).
Proof.
  intros H1 H2 H3 H4. unfold Affine2D_rect_to_rect.
  rewrite (rect_empty_false src H1 H2), (rect_empty_false dst H3 H4).
  destruct xa, ya, slice; rr_strings;
    unfold spec_viewport, align_off; rewrite ?pymax_R, ?pymin_R;
    cbn [existsb String.eqb Ascii.eqb Bool.eqb negb orb andb str_contains str_prefix];
    cbv beta iota; rewrite ?pymax_R, ?pymin_R;
    f_equal; destruct src, dst; runfold; apply affine_eq; try reflexivity; try ring; field; assumption.
Qed.

Theorem rect_to_rect_default_is_meet (src dst : Rct) xa ya :
  Rect_w src <> 0 -> Rect_h src <> 0 -> Rect_w dst <> 0 -> Rect_h dst <> 0 ->
  Affine2D_rect_to_rect ROps src dst (align_name xa ya) = Ok (spec_viewport src dst xa ya false).
Proof.
  intros H1 H2 H3 H4. unfold Affine2D_rect_to_rect.
  rewrite (rect_empty_false src H1 H2), (rect_empty_false dst H3 H4).
  destruct xa, ya; rr_strings;
    unfold spec_viewport, align_off; rewrite ?pymax_R, ?pymin_R;
    cbn [existsb String.eqb Ascii.eqb Bool.eqb negb orb andb str_contains str_prefix];
    cbv beta iota; rewrite ?pymax_R, ?pymin_R;
    f_equal; destruct src, dst; runfold; apply affine_eq; try reflexivity; try ring; field; assumption.
Qed.

Theorem rect_to_rect_none (src dst : Rct) :
  Rect_w src <> 0 -> Rect_h src <> 0 -> Rect_w dst <> 0 -> Rect_h dst <> 0 ->
  Affine2D_rect_to_rect ROps src dst "none" =
  Ok (mkA (Rect_w dst / Rect_w src) 0 0 (Rect_h dst / Rect_h src)
          (Rect_x dst - Rect_x src * (Rect_w dst / Rect_w src))
          (Rect_y dst - Rect_y src * (Rect_h dst / Rect_h src))).
Proof.
  intros H1 H2 H3 H4. unfold Affine2D_rect_to_rect.
  rewrite (rect_empty_false src H1 H2), (rect_empty_false dst H3 H4).
  rr_strings.
  cbn [existsb String.eqb Ascii.eqb Bool.eqb negb orb andb str_contains str_prefix].
  cbv beta iota. f_equal.
Qed.

(* with "none" the source box is mapped exactly onto the destination box *)
Lemma none_maps_corners (src dst : Rct) :
  Rect_w src <> 0 -> Rect_h src <> 0 ->
  let M := mkA (Rect_w dst / Rect_w src) 0 0 (Rect_h dst / Rect_h src)
          (Rect_x dst - Rect_x src * (Rect_w dst / Rect_w src))
          (Rect_y dst - Rect_y src * (Rect_h dst / Rect_h src)) in
  mapP M (mkP (Rect_x src) (Rect_y src)) = mkP (Rect_x dst) (Rect_y dst) /\
  mapP M (mkP (Rect_x src + Rect_w src) (Rect_y src + Rect_h src))
    = mkP (Rect_x dst + Rect_w dst) (Rect_y dst + Rect_h dst).
Proof.
  intros H1 H2 M. subst M. destruct src, dst. revert H1 H2. runfold. intros H1 H2.
  split; apply point_eq; field; assumption.
Qed.

(* the image of the source box under the aligned mapping, as an interval per axis *)
Definition img_lo (a : align1) (d0 dlen s0 slen s : R) : R := s0 * s + align_off a d0 dlen s0 slen s.
Definition img_hi (a : align1) (d0 dlen s0 slen s : R) : R := (s0 + slen) * s + align_off a d0 dlen s0 slen s.

Lemma spec_viewport_maps (src dst : Rct) xa ya slice x y :
  mapP (spec_viewport src dst xa ya slice) (mkP x y) =
  let s := Affine2D_a (spec_viewport src dst xa ya slice) in
  mkP (x * s + align_off xa (Rect_x dst) (Rect_w dst) (Rect_x src) (Rect_w src) s)
      (y * s + align_off ya (Rect_y dst) (Rect_h dst) (Rect_y src) (Rect_h src) s).
Proof. unfold spec_viewport. runfold. apply point_eq; ring. Qed.

(* alignment: min -> low edges coincide, max -> high edges coincide, mid -> centres coincide *)
Lemma align_min d0 dlen s0 slen s : img_lo AMin d0 dlen s0 slen s = d0.
Proof. unfold img_lo, align_off. ring. Qed.
Lemma align_max d0 dlen s0 slen s : img_hi AMax d0 dlen s0 slen s = d0 + dlen.
Proof. unfold img_hi, align_off. ring. Qed.
Lemma align_mid d0 dlen s0 slen s :
  (img_lo AMid d0 dlen s0 slen s + img_hi AMid d0 dlen s0 slen s) / 2 = d0 + dlen / 2.
Proof. unfold img_lo, img_hi, align_off. field. Qed.

(* meet: the scaled source fits inside the destination on both axes, whatever the alignment;
   slice: it covers the destination *)
Lemma meet_fits (a : align1) d0 dlen s0 slen s :
  0 < slen -> 0 <= s -> s <= dlen / slen ->
  d0 <= img_lo a d0 dlen s0 slen s /\ img_hi a d0 dlen s0 slen s <= d0 + dlen.
Proof.
  intros Hl Hs Hle. unfold img_lo, img_hi, align_off.
  assert (slen * s <= dlen).
  { apply (Rmult_le_compat_l slen) in Hle; [|lra]. replace (slen * (dlen / slen)) with dlen in Hle by (field; lra). lra. }
  destruct a; split; lra.
Qed.
Lemma slice_covers (a : align1) d0 dlen s0 slen s :
  0 < slen -> dlen / slen <= s ->
  img_lo a d0 dlen s0 slen s <= d0 /\ d0 + dlen <= img_hi a d0 dlen s0 slen s.
Proof.
  intros Hl Hle. unfold img_lo, img_hi, align_off.
  assert (dlen <= slen * s).
  { apply (Rmult_le_compat_l slen) in Hle; [|lra]. replace (slen * (dlen / slen)) with dlen in Hle by (field; lra). lra. }
  destruct a; split; lra.
Qed.

Theorem viewport_meet_inside (src dst : Rct) xa ya :
  0 < Rect_w src -> 0 < Rect_h src -> 0 < Rect_w dst -> 0 < Rect_h dst ->
  let s := Rmin (Rect_w dst / Rect_w src) (Rect_h dst / Rect_h src) in
  Affine2D_a (spec_viewport src dst xa ya false) = s /\ Affine2D_d (spec_viewport src dst xa ya false) = s /\
  (Rect_x dst <= img_lo xa (Rect_x dst) (Rect_w dst) (Rect_x src) (Rect_w src) s /\
   img_hi xa (Rect_x dst) (Rect_w dst) (Rect_x src) (Rect_w src) s <= Rect_x dst + Rect_w dst) /\
  (Rect_y dst <= img_lo ya (Rect_y dst) (Rect_h dst) (Rect_y src) (Rect_h src) s /\
   img_hi ya (Rect_y dst) (Rect_h dst) (Rect_y src) (Rect_h src) s <= Rect_y dst + Rect_h dst).
Proof.
  intros H1 H2 H3 H4 s.
  assert (0 < Rect_w dst / Rect_w src) by (apply Rdiv_lt_0_compat; assumption).
  assert (0 < Rect_h dst / Rect_h src) by (apply Rdiv_lt_0_compat; assumption).
  assert (0 <= s) by (subst s; apply Rmin_glb; lra).
  repeat split; try reflexivity; apply meet_fits; try assumption; subst s; [apply Rmin_l|apply Rmin_l|apply Rmin_r|apply Rmin_r].
Qed.

Theorem viewport_slice_covers (src dst : Rct) xa ya :
  0 < Rect_w src -> 0 < Rect_h src ->
  let s := Rmax (Rect_w dst / Rect_w src) (Rect_h dst / Rect_h src) in
  Affine2D_a (spec_viewport src dst xa ya true) = s /\ Affine2D_d (spec_viewport src dst xa ya true) = s /\
  (img_lo xa (Rect_x dst) (Rect_w dst) (Rect_x src) (Rect_w src) s <= Rect_x dst /\
   Rect_x dst + Rect_w dst <= img_hi xa (Rect_x dst) (Rect_w dst) (Rect_x src) (Rect_w src) s) /\
  (img_lo ya (Rect_y dst) (Rect_h dst) (Rect_y src) (Rect_h src) s <= Rect_y dst /\
   Rect_y dst + Rect_h dst <= img_hi ya (Rect_y dst) (Rect_h dst) (Rect_y src) (Rect_h src) s).
Proof.
  intros H1 H2 s.
  repeat split; try reflexivity; apply slice_covers; try assumption; subst s; [apply Rmax_l|apply Rmax_l|apply Rmax_r|apply Rmax_r].
Qed.

Lemma rect_to_rect_empty_src (src dst : Rct) par :
  Rect_empty ROps src = true -> Affine2D_rect_to_rect ROps src dst par = Ok ident.
Proof. intro H. unfold Affine2D_rect_to_rect. rewrite H. reflexivity. Qed.

Example rect_to_rect_rejects_bad_align :
  Affine2D_rect_to_rect ROps (mkR 0 0 1 1) (mkR 0 0 2 2) "xMidYMid bogus" = Err EValue.
Proof.
  unfold Affine2D_rect_to_rect.
  rewrite !rect_empty_false by (cbn [Rect_w Rect_h]; lra).
  rr_strings. reflexivity.
Qed.

(* ---------------------------------------------------------------- decompose_translation *)
(* Whenever the call returns normally, the two parts are a pure translation and the 2x2
   part, and (exact arithmetic) they recompose to the original matrix. *)
Notation almost_eq := (Affine2D_almost_equals ROps).

Lemma almost_equal_R a b tol : almost_equal ROps a b tol = true <-> Rabs (a - b) <= tol.
Proof. unfold almost_equal. rewrite pyabs_R. cbn [leb ROps sub]. apply Rleb_true. Qed.

Theorem decompose_translation_parts (A T L : Aff) :
  Affine2D_decompose_translation ROps A = Ok (T, L) ->
  L = mkA (Affine2D_a A) (Affine2D_b A) (Affine2D_c A) (Affine2D_d A) 0 0 /\
  (exists x y, T = Affine2D_translate ROps ident x y) /\
  almost_eq A (compose_ltr [T; L]) (1 * Rpow10 (-4)) = true.
Proof.
  unfold Affine2D_decompose_translation.
  set (L0 := mk_Affine2D ROps (Affine2D_a A) (Affine2D_b A) (Affine2D_c A) (Affine2D_d A) (of_Z ROps 0) (of_Z ROps 0)).
  destruct (Affine2D_almost_equals ROps A L0 (of_dec ROps 1 (-9))) eqn:E0.
  - intro H. injection H as <- <-. split; [reflexivity|]. split.
    + exists 0, 0. unfold Affine2D_translate. cbn [eqb ROps of_Z]. rewrite Reqb_refl. reflexivity.
    + (* ident then L0: recomposition is L0, which is within 1e-9 <= 1e-4 of A *)
      rewrite compose_ltr_cons, compose_ltr_cons, compose_ltr_nil, matmul_ident_l, matmul_ident_r.
      unfold Affine2D_almost_equals in *. cbv zeta in *.
      rewrite !andb_true_iff in *. rewrite !almost_equal_R in *.
      assert (Hle : of_dec ROps 1 (-9) <= 1 * Rpow10 (-4)).
      { cbn [of_dec ROps]. unfold Rpow10. rewrite !Rmult_1_l.
        change (powerRZ 10 (-9)) with (/ 10 ^ 9). change (powerRZ 10 (-4)) with (/ 10 ^ 4).
        apply Rinv_le_contravar; [apply pow_lt; lra | apply Rle_pow; [lra | lia]]. }
      intuition; eapply Rle_trans; eauto.
  - match goal with |- context [if ?c then _ else _] => destruct c eqn:Ea end.
    + match goal with |- (if ?c then _ else _) = _ -> _ => destruct c eqn:Et end; [|discriminate].
      intro H. injection H as <- <-. split; [reflexivity|]. split; [eexists; eexists; reflexivity|]. exact Et.
    + match goal with |- (if ?c then _ else _) = _ -> _ => destruct c eqn:Et end; [|discriminate].
      intro H. injection H as <- <-. split; [reflexivity|]. split; [eexists; eexists; reflexivity|]. exact Et.
Qed.

(* the algebra behind it: for a <> 0 and det <> 0 the computed pre-translation is exact *)
Theorem decompose_translation_exact (a b c d e f : R) :
  a <> 0 -> a * d - b * c <> 0 ->
  let y' := (f - e * b / a) / (d - b * c / a) in
  let x' := (e - c * y') / a in
  matmul (mkA a b c d 0 0) (mkA 1 0 0 1 x' y') = mkA a b c d e f.
Proof.
  intros Ha Hd y' x'. subst x' y'. runfold.
  assert (d - b * c / a <> 0).
  { intro H0. apply Hd. apply (Rmult_eq_compat_l a) in H0. rewrite Rmult_0_r in H0.
    rewrite <- H0. field. exact Ha. }
  apply affine_eq; try ring; field; (split; [assumption|]); intro H0; apply Hd; rewrite <- H0; ring.
Qed.
