(* proofs/E6_reuse.v — every transform reported by the reuse search has been verified (C20):
   whatever the candidate generators propose, a returned matrix maps the first outline onto the
   second command for command within the tolerance. *)
From Coq Require Import ZArith Reals Lra List Bool Ascii String.
From Pico Require Import Num PyStr G_geom G_transform G_meta G_types Walk Reuse E1_affine E3_walk.
Import ListNotations.
Local Open Scope char_scope.

Notation try_affineR := (try_affine (N:=ROps) RMath).
Notation friendlyR := (friendly (N:=ROps)).

(* almost_equals on command lists: same letters, same arities, every argument within tol *)
Definition close_cmd (tol : R) (c1 c2 : cmdR) : Prop :=
  fst c1 = fst c2 /\ Forall2 (fun x y => Rabs (x - y) <= tol)%R (snd c1) (snd c2).

Lemma args_close tol (a1 a2 : list R) :
  Nat.eqb (List.length a1) (List.length a2) = true ->
  forallb (fun xy => negb (ltb ROps tol (@pyabs ROps (sub ROps (fst xy) (snd xy))))) (combine a1 a2) = true ->
  Forall2 (fun x y => Rabs (x - y) <= tol)%R a1 a2.
Proof.
  revert a2. induction a1 as [|x a1 IH]; intros [|y a2] Hl Hf; cbn in Hl; try discriminate; [constructor|].
  cbn [combine forallb fst snd] in Hf. apply andb_true_iff in Hf. destruct Hf as [H1 H2].
  constructor; [|apply IH; assumption].
  apply negb_true_iff in H1. rewrite pyabs_R in H1. cbn [ltb sub ROps] in H1. apply Rltb_false in H1. exact H1.
Qed.

Theorem path_almost_equals_spec tol (p q : pathR) :
  path_almost_equals (N:=ROps) tol p q = true -> Forall2 (close_cmd tol) p q.
Proof.
  revert q. induction p as [|[c1 a1] p IH]; intros [|[c2 a2] q] H; cbn [path_almost_equals] in H; try discriminate; [constructor|].
  apply andb_true_iff in H. destruct H as [H Hr]. apply andb_true_iff in H. destruct H as [H Hf].
  apply andb_true_iff in H. destruct H as [Hc Hl].
  constructor; [|apply IH; exact Hr]. split; cbn [fst snd].
  - apply Ascii.eqb_eq. exact Hc.
  - apply args_close; assumption.
Qed.

Lemma path_almost_equals_refl tol (p : pathR) : (0 <= tol)%R -> path_almost_equals (N:=ROps) tol p p = true.
Proof.
  intro Ht. induction p as [|[c a] p IH]; cbn [path_almost_equals]; [reflexivity|].
  rewrite Ascii.eqb_refl, Nat.eqb_refl, IH. cbn [andb]. rewrite andb_true_r.
  induction a as [|x a IHa]; cbn [combine forallb fst snd]; [reflexivity|].
  rewrite IHa, andb_true_r. apply negb_true_iff. rewrite pyabs_R. cbn [ltb sub ROps].
  apply Rltb_false. replace (x - x)%R with 0%R by ring. rewrite Rabs_R0. exact Ht.
Qed.

Lemma round_search_verified ds : forall a s1 s2 tol,
  try_affineR a s1 s2 tol = true -> try_affineR (round_search RMath ds a s1 s2 tol) s1 s2 tol = true.
Proof.
  induction ds as [|d r IH]; intros a s1 s2 tol H; cbn [round_search]; [exact H|].
  destruct (try_affine RMath (Affine2D_round ROps a d) s1 s2 tol) eqn:E; [exact E|apply IH; exact H].
Qed.

Opaque round_digits.

Section AnyCandidates.
  Variable cand2 cand3 : pathR -> pathR -> result (option Aff).

  (* the control flow guards every exit, including the rounding search *)
  Theorem affine_between_sound (p1 p2 : pathR) tol A :
    affine_between RMath cand2 cand3 p1 p2 tol = Ok (Some A) ->
    (A = ident /\ path_almost_equals (N:=ROps) tol p1 p2 = true) \/
    try_affineR A (friendlyR p1) (friendlyR p2) tol = true.
  Proof.
    unfold affine_between.
    destruct (path_almost_equals (N:=ROps) tol p1 p2) eqn:E0.
    { intro H. injection H as <-. left. split; reflexivity. }
    destruct (first_move (friendlyR p1)) as [[x1 y1]|e1]; [|discriminate].
    destruct (first_move (friendlyR p2)) as [[x2 y2]|e2]; [|discriminate].
    set (a1 := Affine2D_translate ROps (Affine2D_identity ROps) (sub ROps x2 x1) (sub ROps y2 y1)).
    destruct (try_affine RMath a1 (friendlyR p1) (friendlyR p2) tol) eqn:E1.
    { intro H. injection H as <-. right. apply round_search_verified. exact E1. }
    destruct (cand2 (friendlyR p1) (friendlyR p2)) as [[a2|]|e]; try discriminate.
    destruct (try_affine RMath a2 (friendlyR p1) (friendlyR p2) tol) eqn:E2.
    { intro H. injection H as <-. right. apply round_search_verified. exact E2. }
    destruct (cand3 (friendlyR p1) (friendlyR p2)) as [[a3|]|e]; try discriminate.
    destruct (try_affine RMath a3 (friendlyR p1) (friendlyR p2) tol) eqn:E3; [|discriminate].
    intro H. injection H as <-. right. apply round_search_verified. exact E3.
  Qed.

  (* spelled out: the transformed first outline agrees with the second command for command *)
  Corollary reported_transform_maps_outline (p1 p2 : pathR) tol A :
    affine_between RMath cand2 cand3 p1 p2 tol = Ok (Some A) ->
    (A = ident /\ Forall2 (close_cmd tol) p1 p2) \/
    Forall2 (close_cmd tol) (apply_affine RMath A (friendlyR p1)) (friendlyR p2).
  Proof.
    intro H. destruct (affine_between_sound p1 p2 tol A H) as [[-> H0]|H1].
    - left. split; [reflexivity|apply path_almost_equals_spec; exact H0].
    - right. apply path_almost_equals_spec. exact H1.
  Qed.

  Theorem identical_shapes_give_identity (p : pathR) tol :
    (0 <= tol)%R -> affine_between RMath cand2 cand3 p p tol = Ok (Some ident).
  Proof. intro Ht. unfold affine_between. rewrite path_almost_equals_refl by exact Ht. reflexivity. Qed.

  (* contrapositive: if no matrix at all verifies, nothing is reported *)
  Theorem nothing_reported_without_verification (p1 p2 : pathR) tol :
    path_almost_equals (N:=ROps) tol p1 p2 = false ->
    (forall A, try_affineR A (friendlyR p1) (friendlyR p2) tol = false) ->
    forall A, affine_between RMath cand2 cand3 p1 p2 tol <> Ok (Some A).
  Proof.
    intros H0 Hall A H. destruct (affine_between_sound p1 p2 tol A H) as [[_ H1]|H1]; [congruence|].
    rewrite Hall in H1. discriminate.
  Qed.
End AnyCandidates.
