(* proofs/E4_sweep.v — the swept angle has the sign the sweep flag selects and is less than a full turn:
   sweep set   ->  0 <= theta_arc < 2 pi
   sweep clear -> -2 pi < theta_arc <= 0
   (of the regenerated end_to_center_parametrization; atan2 ranges over (-pi, pi]) *)
From Coq Require Import ZArith Reals Lra List Bool.
From Pico Require Import Num PyStr G_geom G_transform G_arc.
Local Open Scope R_scope.

Lemma Ratan2_range (y x : R) : - PI < Ratan2 y x <= PI.
Proof.
  pose proof PI_RGT_0 as Hpi. unfold Ratan2.
  destruct (Rlt_dec 0 x) as [Hx|Hx].
  - pose proof (atan_bound (y / x)). lra.
  - destruct (Rlt_dec x 0) as [Hx'|Hx'].
    + destruct (Rle_dec 0 y) as [Hy|Hy].
      * assert (Hq : y / x <= 0).
        { unfold Rdiv. replace 0 with (y * 0) by ring.
          destruct Hy as [Hy|<-]; [|lra]. apply Rlt_le. apply Rmult_lt_compat_l; [exact Hy|]. apply Rinv_lt_0_compat, Hx'. }
        pose proof (atan_bound (y / x)).
        assert (atan (y / x) <= 0).
        { destruct Hq as [Hq|Hq]; [|rewrite Hq, atan_0; lra]. pose proof (atan_increasing _ _ Hq) as Hi. rewrite atan_0 in Hi. lra. }
        lra.
      * assert (Hq : 0 < y / x).
        { unfold Rdiv. replace (y * / x) with ((- y) * (- / x)) by ring.
          apply Rmult_lt_0_compat; [lra|]. pose proof (Rinv_lt_0_compat x Hx'). lra. }
        pose proof (atan_bound (y / x)).
        pose proof (atan_increasing _ _ Hq) as Hi. rewrite atan_0 in Hi. lra.
    + destruct (Rlt_dec 0 y); [lra|]. destruct (Rlt_dec y 0); lra.
Qed.

Theorem sweep_selects_the_sign (self : @EllipticalArc ROps) cp :
  EllipticalArc_end_to_center_parametrization ROps RMath self = Ok cp ->
  (EllipticalArc_sweep self <> 0 -> 0 <= CenterParametrization_theta_arc cp < 2 * PI) /\
  (EllipticalArc_sweep self = 0 -> - (2 * PI) < CenterParametrization_theta_arc cp <= 0).
Proof.
  unfold EllipticalArc_end_to_center_parametrization.
  destruct (EllipticalArc_is_straight_line ROps self || EllipticalArc_is_zero_length ROps self); [discriminate|].
  cbv zeta. intro H. injection H as H. subst cp. cbn [CenterParametrization_theta_arc].
  cbn [m_atan2 m_pi RMath].
  match goal with |- context [Rminus (Ratan2 ?a ?b) (Ratan2 ?c ?d)] =>
    pose proof (Ratan2_range a b) as H2; pose proof (Ratan2_range c d) as H1;
    generalize dependent (Ratan2 a b); generalize dependent (Ratan2 c d) end.
  intros t1 H1 t2 H2. pose proof PI_RGT_0 as Hpi.
  unfold truthy. cbn [sub add mul of_Z ltb eqb ROps zero].
  split; intro Hs.
  - assert (Es : Reqb (EllipticalArc_sweep self) 0 = false) by (apply Reqb_false; exact Hs). rewrite Es. cbn [negb andb].
    rewrite andb_true_r, andb_false_r.
    destruct (Rltb (t2 - t1) 0) eqn:E; [apply Rltb_true in E|apply Rltb_false in E]; lra.
  - assert (Es : Reqb (EllipticalArc_sweep self) 0 = true) by (apply Reqb_true; exact Hs). rewrite Es. cbn [negb andb].
    rewrite andb_false_r, andb_true_r.
    destruct (Rltb 0 (t2 - t1)) eqn:E; [apply Rltb_true in E|apply Rltb_false in E]; lra.
Qed.
