(* proofs/E5_paint.v — SVGShape.might_paint is conservative (C18), relative to the engine contract:
   simplify preserves the interior and a path without positive area has an empty interior. *)
From Coq Require Import ZArith Reals Lra List Bool Ascii String.
From Pico Require Import Num PyStr Lex G_geom G_transform Walk Skia Shape E1_affine E3_walk E5_pathops.
Import ListNotations.
Local Open Scope string_scope.

Notation shapeR := (@shape ROps).

Section Paint.
  Variable inside : pathR -> rule -> Pt -> Prop.         (* open interior under a fill rule *)
  Variable in_stroke : shapeR -> pathR -> Pt -> Prop.    (* the ideal stroke region of a path with the shape's stroke properties *)
  Variable sk : @skia ROps.

  Hypothesis simplify_contract : forall p r q,
    sk_simplify sk p r = Some q -> forall r' pt, inside q r' pt <-> inside p r pt.
  (* a (simplified) path without positive area encloses nothing *)
  Hypothesis area_contract : forall q, ~ (0 < sk_area sk q NonZero)%R -> forall pt, ~ inside q NonZero pt.
  (* pen movements alone neither enclose nor stroke anything *)
  Hypothesis moves_enclose_nothing : forall (p : pathR) r pt, only_moves (N:=ROps) p = true -> ~ inside p r pt.
  Hypothesis moves_stroke_nothing : forall sh (p : pathR) pt, only_moves (N:=ROps) p = true -> ~ in_stroke sh p pt.

  Definition cmds_of (sh : shapeR) : pathR := as_cmd_seq RMath (s_d sh).

  (* what a shape paints, after its style declarations are applied (SVG painting model) *)
  Definition fill_paints (sh : shapeR) (p : pathR) (pt : Pt) : Prop :=
    s_display sh <> "none" /\ visible sh (s_fill sh) (s_fill_opacity sh) = true /\
    exists r, rule_of_string (s_fill_rule sh) = Some r /\ inside p r pt.
  Definition stroke_paints (sh : shapeR) (p : pathR) (pt : Pt) : Prop :=
    s_display sh <> "none" /\ visible sh (s_stroke sh) (s_stroke_opacity sh) = true /\
    s_stroke_width sh <> 0%R /\ in_stroke sh p pt.

  Lemma ltb_R a b : ltb ROps a b = true <-> (a < b)%R.
  Proof. cbn [ltb ROps]. apply Rltb_true. Qed.
  Lemma eqb_R a b : eqb ROps a b = true <-> a = b.
  Proof. cbn [eqb ROps]. apply Reqb_true. Qed.

  Theorem might_paint_false_sound (sh0 sh : shapeR) :
    apply_style sh0 = Ok sh -> s_d sh = s_d sh0 ->
    might_paint RMath sk sh0 = Ok false ->
    forall pt, ~ fill_paints sh (cmds_of sh0) pt /\ ~ stroke_paints sh (cmds_of sh0) pt.
  Proof.
    intros Hst Hd H pt. unfold might_paint in H. rewrite Hst in H. fold (cmds_of sh0) in H.
    unfold fill_paints, stroke_paints.
    destruct (s_display sh =? "none") eqn:Ed.
    { apply String.eqb_eq in Ed. split; intros [Hn _]; contradiction. }
    destruct (only_moves (N:=ROps) (cmds_of sh0)) eqn:Em.
    { split.
      - intros [_ [_ [r [_ Hin]]]]. eapply moves_enclose_nothing; eassumption.
      - intros [_ [_ [_ Hs]]]. eapply moves_stroke_nothing; eassumption. }
    destruct (visible sh (s_stroke sh) (s_stroke_opacity sh) && negb (eqb ROps (s_stroke_width sh) (zero ROps))) eqn:Es; [discriminate|].
    assert (Hstroke : ~ (visible sh (s_stroke sh) (s_stroke_opacity sh) = true /\ s_stroke_width sh <> 0%R)).
    { intros [Hv Hw]. rewrite Hv in Es. cbn [andb] in Es. apply negb_false_iff in Es. apply eqb_R in Es. contradiction. }
    split; [|intros [_ [Hv [Hw _]]]; apply Hstroke; split; assumption].
    destruct (visible sh (s_fill sh) (s_fill_opacity sh)) eqn:Ef; cbn [negb] in H.
    2:{ intros [_ [Hv _]]. discriminate. }
    intros [_ [_ [r [Hr Hin]]]]. rewrite Hr in H.
    unfold path_area in H. destruct (negb (skia_path_ok (N:=ROps) (cmds_of sh0))); [discriminate|].
    destruct (sk_simplify sk (cmds_of sh0) r) as [q|] eqn:Eq; [|discriminate].
    injection H as H. 
    assert (Hna : ~ (0 < sk_area sk q NonZero)%R).
    { intro Hpos. apply Rltb_false in H. lra. }
    apply (area_contract q Hna pt). apply (simplify_contract _ _ _ Eq NonZero pt). exact Hin.
  Qed.

  (* completeness: a visible stroke of non-zero width, or a visible fill with positive area, is
     reported as possibly painting; so is any shape on which the engine fails *)
  Theorem might_paint_visible_stroke (sh0 sh : shapeR) :
    apply_style sh0 = Ok sh -> s_display sh <> "none" -> only_moves (N:=ROps) (cmds_of sh0) = false ->
    visible sh (s_stroke sh) (s_stroke_opacity sh) = true -> s_stroke_width sh <> 0%R ->
    might_paint RMath sk sh0 = Ok true.
  Proof.
    intros Hst Hd Hm Hv Hw. unfold might_paint. rewrite Hst. fold (cmds_of sh0).
    apply String.eqb_neq in Hd. rewrite Hd, Hm, Hv. cbn [andb].
    assert (E : eqb ROps (s_stroke_width sh) (zero ROps) = false).
    { destruct (eqb ROps (s_stroke_width sh) (zero ROps)) eqn:E; [|reflexivity]. apply eqb_R in E. contradiction. }
    rewrite E. reflexivity.
  Qed.

  Theorem might_paint_positive_area (sh0 sh : shapeR) r a :
    apply_style sh0 = Ok sh -> s_display sh <> "none" -> only_moves (N:=ROps) (cmds_of sh0) = false ->
    visible sh (s_fill sh) (s_fill_opacity sh) = true -> rule_of_string (s_fill_rule sh) = Some r ->
    path_area sk (cmds_of sh0) r = Ok a -> (0 < a)%R ->
    might_paint RMath sk sh0 = Ok true.
  Proof.
    intros Hst Hd Hm Hv Hr Ha Hpos. unfold might_paint. rewrite Hst. fold (cmds_of sh0).
    apply String.eqb_neq in Hd. rewrite Hd, Hm.
    destruct (visible sh (s_stroke sh) (s_stroke_opacity sh) && negb (eqb ROps (s_stroke_width sh) (zero ROps))); [reflexivity|].
    rewrite Hv. cbn [negb]. rewrite Hr, Ha. f_equal. apply ltb_R. exact Hpos.
  Qed.

  Theorem might_paint_engine_failure (sh0 sh : shapeR) r :
    apply_style sh0 = Ok sh -> s_display sh <> "none" -> only_moves (N:=ROps) (cmds_of sh0) = false ->
    visible sh (s_fill sh) (s_fill_opacity sh) = true -> rule_of_string (s_fill_rule sh) = Some r ->
    path_area sk (cmds_of sh0) r = Err EOther ->
    might_paint RMath sk sh0 = Ok true.
  Proof.
    intros Hst Hd Hm Hv Hr Ha. unfold might_paint. rewrite Hst. fold (cmds_of sh0).
    apply String.eqb_neq in Hd. rewrite Hd, Hm.
    destruct (visible sh (s_stroke sh) (s_stroke_opacity sh) && negb (eqb ROps (s_stroke_width sh) (zero ROps))); [reflexivity|].
    rewrite Hv. cbn [negb]. rewrite Hr, Ha. reflexivity.
  Qed.

  (* removing the shapes reported as unable to paint does not change what a list of shapes paints *)
  Definition paints (sh0 : shapeR) (pt : Pt) : Prop :=
    exists sh, apply_style sh0 = Ok sh /\ (fill_paints sh (cmds_of sh0) pt \/ stroke_paints sh (cmds_of sh0) pt).

  Definition keeps (sh0 : shapeR) : bool := match might_paint RMath sk sh0 with Ok false => false | _ => true end.

  Theorem remove_unpainted_preserves (shapes : list shapeR) :
    Forall (fun s0 => forall sh, apply_style s0 = Ok sh -> s_d sh = s_d s0) shapes ->
    forall pt, Exists (fun s0 => paints s0 pt) (filter keeps shapes) <-> Exists (fun s0 => paints s0 pt) shapes.
  Proof.
    intros Hd pt. induction shapes as [|s0 rest IH]; cbn [filter]; [tauto|].
    inversion Hd as [|? ? H0 Hrest]; subst. specialize (IH Hrest).
    destruct (keeps s0) eqn:Ek.
    - split; intro H; inversion H; subst; try (left; assumption); right; tauto.
    - split; intro H.
      + right. tauto.
      + inversion H as [? ? Hp|? ? Hp]; subst; [|tauto].
        exfalso. destruct Hp as [sh [Hst Hp]]. unfold keeps in Ek.
        destruct (might_paint RMath sk s0) as [[|]|e] eqn:Em; try discriminate.
        destruct (might_paint_false_sound s0 sh Hst (H0 sh Hst) Em pt) as [Hf Hs]. tauto.
  Qed.
End Paint.

(* apply_style never changes the geometry *)
Lemma set_field_keeps_d (sh : shapeR) p v sh' : set_field sh p v = Ok sh' -> s_d sh' = s_d sh.
Proof.
  unfold set_field.
  repeat match goal with
         | |- context [if ?b then _ else _] => destruct b
         | |- context [match num_of_string ?v with _ => _ end] => destruct (num_of_string v)
         end; intro H; try discriminate; injection H as <-; reflexivity.
Qed.

Lemma apply_style_keeps_d (sh0 sh : shapeR) : apply_style sh0 = Ok sh -> s_d sh = s_d sh0.
Proof.
  unfold apply_style. generalize (s_style sh0). intro ds. revert sh0.
  induction ds as [|[p v] r IH]; intros sh0 H; cbn [apply_decls] in H.
  - injection H as <-. reflexivity.
  - destruct (set_field sh0 p v) as [sh1|e] eqn:E; [|discriminate].
    rewrite (IH sh1 H). eapply set_field_keeps_d; exact E.
Qed.
