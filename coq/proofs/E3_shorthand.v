(* proofs/E3_shorthand.v — expand_shorthand preserves the meaning of a path: the first control
   point of S/T is the reflection of the previous control point only after a curve of the same
   family, exactly as SVG 1.1 §8.3.6/§8.3.7 prescribe; otherwise it is the current point. *)
From Coq Require Import ZArith Reals Lra Lia List Bool Ascii String FunctionalExtensionality.
From Pico Require Import Num PyStr G_geom G_transform G_meta G_types Walk PathSem E1_affine E3_walk E3_rewrites.
Import ListNotations.
Local Open Scope char_scope.

Definition f_expand : cb1_t := fun s cur c a prev =>
  match @cb_expand_shorthand ROps s cur c a prev with [x] => x | _ => (c, a) end.

Lemma expand_is_lift1 : @cb_expand_shorthand ROps = lift1 f_expand.
Proof.
  unfold lift1, f_expand.
  extensionality s. extensionality cur. extensionality c. extensionality a. extensionality p.
  unfold cb_expand_shorthand. destruct p as [[[pp pc] pa]|]; unfold expand_shorthand_callback;
    (destruct (negb _); [reflexivity|]);
    repeat match goal with
           | |- context [match ?e with pair _ _ => _ end] => destruct e
           | |- context [if ?b then _ else _] => destruct b
           end; reflexivity.
Qed.

(* the control point the interpreter remembers, read off the last emitted (explicit) command *)
Definition ctrl_of_prev (prev : @prev_t ROps) : @ctrl ROps :=
  match prev with
  | None => NoCtrl
  | Some (pp, pc, pa) =>
      let '(C, A) := _relative_to_absolute ROps pp pc pa in
      if Ascii.eqb C "C" then CubicCtrl (mkP (nth_back 4 A 0%R) (nth_back 3 A 0%R))
      else if Ascii.eqb C "Q" then QuadCtrl (mkP (nth_back 4 A 0%R) (nth_back 3 A 0%R))
      else NoCtrl
  end.

Definition prev_ok (prev : @prev_t ROps) : Prop :=
  match prev with
  | None => True
  | Some (pp, pc, pa) => wf_cmd (pc, pa) /\ to_upper pc <> "S" /\ to_upper pc <> "T"
  end.

Definition inv_expand : ist -> ist -> @prev_t ROps -> Prop := fun i o prev =>
  i = o /\ i_ctrl i = ctrl_of_prev prev /\ prev_ok prev.

Ltac expand_finish :=
  unfold interp_cmd, istate0, at_, P, argn, reflect; crunch; Rnorm;
  cbn [i_cur i_start i_ctrl Point_x Point_y fst snd];
  unfold ctrl_of_prev, _relative_to_absolute, _rewrite_coords; crunch; Rnorm; crunch;
  cbn [i_cur i_start i_ctrl Point_x Point_y fst snd];
  repeat split; try discriminate; try (cbn; tauto); eq_crunch.

Ltac expand_unfold :=
  unfold first_fix, f_expand, cb_expand_shorthand, expand_shorthand_callback, _relative_to_absolute, _rewrite_coords, wf_cmd, letters, prev_ok;
  crunch; cbn [fst snd Point_x Point_y]; Rnorm; crunch.

(* an uppercase command is already absolute *)
Lemma rel_abs_upper pp c (a : list R) :
  In c letters -> is_lower c = false -> _relative_to_absolute ROps pp c a = (c, a).
Proof.
  intros Hl Hlow. unfold _relative_to_absolute, _rewrite_coords.
  destruct (cmd_coords c) as [xs ys].
  assert (E : Ascii.eqb c (to_upper c) = true).
  { split_letters Hl; try discriminate Hlow; reflexivity. }
  rewrite E. reflexivity.
Qed.

Lemma rel_abs_letter pp c (a : list R) :
  In c letters -> fst (_relative_to_absolute ROps pp c a) = to_upper c.
Proof.
  intro Hl. unfold _relative_to_absolute, _rewrite_coords. destruct (cmd_coords c) as [xs ys].
  destruct (negb (Ascii.eqb c (to_upper c))) eqn:E; cbn [fst]; [reflexivity|].
  apply negb_false_iff, Ascii.eqb_eq in E. exact E.
Qed.

(* what the callback does for a shorthand command, with the previous command kept abstract *)
Lemma expand_step : step_ok f_expand inv_expand (fun s => s) no_pre.
Proof.
  intros i o prev c a first [HIo [HIc HIp]] [Hl Ha] _ Hf Hnf. subst o. rewrite map_id. cbn [fst snd] in *.
  unfold inv_expand.
  destruct first.
  - destruct (Hf eq_refl) as [-> [_ ->]].
    split_letters Hl; fix_arity Ha a; expand_unfold; expand_finish.
  - destruct prev as [[[pp pc] pa]|]; [|exfalso; apply (Hnf eq_refl); reflexivity].
    destruct i as [[cx cy] [sx sy] ct]. cbn [i_ctrl] in HIc. subst ct.
    destruct HIp as [[Hpl Hpa] [HnS HnT]]. cbn [fst snd] in *.
    (* normalise the callback's view of the previous command to the absolute form *)
    assert (Eprev : (if is_lower pc then (let '(x, y) := _relative_to_absolute ROps pp pc pa in (x, y)) else (pc, pa))
                    = _relative_to_absolute ROps pp pc pa).
    { destruct (is_lower pc) eqn:El; [destruct (_relative_to_absolute ROps pp pc pa); reflexivity|].
      symmetry. apply rel_abs_upper; assumption. }
    pose proof (rel_abs_letter pp pc pa Hpl) as EC.
    assert (Ectrl : ctrl_of_prev (Some (pp, pc, pa)) =
                    let '(C, A) := _relative_to_absolute ROps pp pc pa in
                    if Ascii.eqb C "C" then CubicCtrl (mkP (nth_back 4 A 0%R) (nth_back 3 A 0%R))
                    else if Ascii.eqb C "Q" then QuadCtrl (mkP (nth_back 4 A 0%R) (nth_back 3 A 0%R))
                    else NoCtrl) by reflexivity.
    rewrite !Ectrl. clear Ectrl Hf.
    unfold f_expand, cb_expand_shorthand, expand_shorthand_callback. rewrite Eprev.
    destruct (_relative_to_absolute ROps pp pc pa) as [C A]. cbn [fst] in EC. clear Eprev EC.
    assert (HC : C = "C" \/ C = "Q" \/ (Ascii.eqb C "C" = false /\ Ascii.eqb C "Q" = false)).
    { destruct (Ascii.eqb C "C") eqn:E1; [left; apply Ascii.eqb_eq; exact E1|].
      destruct (Ascii.eqb C "Q") eqn:E2; [right; left; apply Ascii.eqb_eq; exact E2|]. right; right; split; reflexivity. }
    split_letters Hl; fix_arity Ha a;
      lazymatch goal with
      | |- context [first_fix false "S"] => destruct HC as [-> | [-> | [E1 E2]]]
      | |- context [first_fix false "s"] => destruct HC as [-> | [-> | [E1 E2]]]
      | |- context [first_fix false "T"] => destruct HC as [-> | [-> | [E1 E2]]]
      | |- context [first_fix false "t"] => destruct HC as [-> | [-> | [E1 E2]]]
      | |- _ => clear HC
      end;
      unfold first_fix, _relative_to_absolute, _rewrite_coords, wf_cmd, letters, prev_ok;
      crunch; cbn [fst snd Point_x Point_y]; Rnorm; crunch;
      rewrite ?E1, ?E2; crunch; expand_finish.
Qed.

Theorem expand_shorthand_preserves (p : pathR) :
  wf_path p -> interpR (expand_shorthand (N:=ROps) p) = interpR p.
Proof.
  intro H. unfold expand_shorthand. rewrite expand_is_lift1.
  rewrite (walk1_sim f_expand inv_expand (fun s => s) no_pre); try assumption.
  - apply map_id.
  - repeat split.
  - apply expand_step.
  - apply no_pre_all.
Qed.
