(* base/PyStr.v — ASCII/string helpers mirroring the Python str methods that
   the modelled code uses.  ASCII only (stated domain restriction). *)
From Coq Require Import Ascii String List Bool Arith NArith.
Import ListNotations.
Local Open Scope char_scope.
Local Open Scope string_scope.

Definition is_lower (c : ascii) : bool :=
  let n := nat_of_ascii c in (97 <=? n)%nat && (n <=? 122)%nat.
Definition is_upper (c : ascii) : bool :=
  let n := nat_of_ascii c in (65 <=? n)%nat && (n <=? 90)%nat.
Definition to_upper (c : ascii) : ascii :=
  if is_lower c then ascii_of_nat (nat_of_ascii c - 32) else c.
Definition to_lower (c : ascii) : ascii :=
  if is_upper c then ascii_of_nat (nat_of_ascii c + 32) else c.
Definition is_digit (c : ascii) : bool :=
  let n := nat_of_ascii c in (48 <=? n)%nat && (n <=? 57)%nat.
(* Python str.isspace / what str.strip() removes, restricted to ASCII *)
Definition is_pyspace (c : ascii) : bool :=
  let n := nat_of_ascii c in
  ((9 <=? n)%nat && (n <=? 13)%nat) || ((28 <=? n)%nat && (n <=? 32)%nat).

Fixpoint str_map (f : ascii -> ascii) (s : string) : string :=
  match s with EmptyString => EmptyString | String c r => String (f c) (str_map f r) end.
Definition str_lower := str_map to_lower.
Definition str_upper := str_map to_upper.

Fixpoint lstrip (s : string) : string :=
  match s with
  | String c r => if is_pyspace c then lstrip r else s
  | EmptyString => EmptyString
  end.
Fixpoint str_rev_aux (s acc : string) : string :=
  match s with EmptyString => acc | String c r => str_rev_aux r (String c acc) end.
Definition str_rev (s : string) : string := str_rev_aux s EmptyString.
Definition rstrip (s : string) : string := str_rev (lstrip (str_rev s)).
Definition str_strip (s : string) : string := rstrip (lstrip s).

Fixpoint str_prefix (p s : string) : bool :=
  match p, s with
  | EmptyString, _ => true
  | String a p', String b s' => Ascii.eqb a b && str_prefix p' s'
  | _, _ => false
  end.
Fixpoint str_contains (p s : string) : bool :=
  (* Python: p in s *)
  str_prefix p s ||
  match s with EmptyString => false | String _ r => str_contains p r end.

(* Python s.partition(" ") : (before, sep, after) *)
Fixpoint str_partition_space (s : string) : string * string * string :=
  match s with
  | EmptyString => (EmptyString, EmptyString, EmptyString)
  | String c r =>
      if Ascii.eqb c " "%char then (EmptyString, " ", r)
      else let '(a, b, d) := str_partition_space r in (String c a, b, d)
  end.

Definition str_in (s : string) (l : list string) : bool := existsb (String.eqb s) l.
Definition chr_in (c : ascii) (l : list ascii) : bool := existsb (Ascii.eqb c) l.

Fixpoint list_of_string (s : string) : list ascii :=
  match s with EmptyString => [] | String c r => c :: list_of_string r end.
Fixpoint string_of_list (l : list ascii) : string :=
  match l with [] => EmptyString | c :: r => String c (string_of_list r) end.

Definition assoc_chr {A} (c : ascii) (l : list (ascii * A)) (d : A) : A :=
  match find (fun p => Ascii.eqb c (fst p)) l with Some p => snd p | None => d end.
Definition assoc_chr_opt {A} (c : ascii) (l : list (ascii * A)) : option A :=
  match find (fun p => Ascii.eqb c (fst p)) l with Some p => Some (snd p) | None => None end.
Definition assoc_str_opt {A} (s : string) (l : list (string * A)) : option A :=
  match find (fun p => String.eqb s (fst p)) l with Some p => Some (snd p) | None => None end.
