(* base/Num.v — the numeric interface every model is written over.

   Python floats are modelled as exact field elements.  All model code is
   generic in a [NumOps] record; theorems instantiate it with [ROps] (Coq's
   reals), execution (vm_compute / extraction) with [QOps] (rationals).
   Transcendental functions are a second record, [MathOps]; for theorems it is
   [RMath] (this file is the statement of what Python's math.* denote), for
   execution it is built from an oracle callback (see extract/Entry.v). *)
From Coq Require Import ZArith QArith Qround Reals Lra Lia Bool List.
Import ListNotations.

Record NumOps := {
  T : Type;
  zero : T; one : T;
  add : T -> T -> T; sub : T -> T -> T; mul : T -> T -> T; div : T -> T -> T;
  opp : T -> T;
  eqb : T -> T -> bool; leb : T -> T -> bool; ltb : T -> T -> bool;
  of_Z : Z -> T;
  of_dec : Z -> Z -> T;          (* of_dec m e = m * 10^e : a decimal literal *)
  round_nd : Z -> T -> T;        (* Python round(x, n): half-even at 10^-n *)
  round_int : T -> Z             (* Python round(x) -> int: half-even *)
}.

Record MathOps (N : NumOps) := {
  m_cos : T N -> T N; m_sin : T N -> T N; m_tan : T N -> T N;
  m_sqrt : T N -> T N;
  m_atan2 : T N -> T N -> T N;   (* atan2 y x *)
  m_hypot : T N -> T N -> T N;
  m_ceil : T N -> Z;
  m_pi : T N
}.
Arguments m_cos {N}. Arguments m_sin {N}. Arguments m_tan {N}. Arguments m_sqrt {N}.
Arguments m_atan2 {N}. Arguments m_hypot {N}. Arguments m_ceil {N}. Arguments m_pi {N}.

Section Derived.
  Context {N : NumOps}.
  Definition neb (a b : T N) : bool := negb (eqb N a b).
  Definition gtb (a b : T N) : bool := ltb N b a.
  Definition geb (a b : T N) : bool := leb N b a.
  (* Python max(a, b): first argument unless the second is strictly larger *)
  Definition pymax (a b : T N) : T N := if ltb N a b then b else a.
  Definition pymin (a b : T N) : T N := if ltb N b a then b else a.
  Definition pyabs (a : T N) : T N := if ltb N a (zero N) then opp N a else a.
  Definition truthy (a : T N) : bool := negb (eqb N a (zero N)).
  Definition two : T N := add N (one N) (one N).
End Derived.

(* ------------------------------------------------------------------ *)
(* Instance over the reals: used by every theorem.                     *)

Local Open Scope R_scope.

Definition Reqb (x y : R) : bool := if Req_EM_T x y then true else false.
Definition Rleb (x y : R) : bool := if Rle_dec x y then true else false.
Definition Rltb (x y : R) : bool := if Rlt_dec x y then true else false.

Lemma Reqb_true x y : Reqb x y = true <-> x = y.
Proof. unfold Reqb; destruct (Req_EM_T x y); split; congruence. Qed.
Lemma Reqb_false x y : Reqb x y = false <-> x <> y.
Proof. unfold Reqb; destruct (Req_EM_T x y); split; congruence. Qed.
Lemma Rleb_true x y : Rleb x y = true <-> x <= y.
Proof. unfold Rleb; destruct (Rle_dec x y); split; congruence. Qed.
Lemma Rleb_false x y : Rleb x y = false <-> y < x.
Proof. unfold Rleb; destruct (Rle_dec x y); split; try congruence; lra. Qed.
Lemma Rltb_true x y : Rltb x y = true <-> x < y.
Proof. unfold Rltb; destruct (Rlt_dec x y); split; congruence. Qed.
Lemma Rltb_false x y : Rltb x y = false <-> y <= x.
Proof. unfold Rltb; destruct (Rlt_dec x y); split; try congruence; lra. Qed.
Lemma Reqb_refl x : Reqb x x = true.
Proof. apply Reqb_true; reflexivity. Qed.

(* floor and round-half-even on R *)
Definition Rfloor (x : R) : Z := (up x - 1)%Z.
Lemma Rfloor_spec x : IZR (Rfloor x) <= x < IZR (Rfloor x) + 1.
Proof.
  unfold Rfloor. destruct (archimed x) as [H1 H2]. rewrite minus_IZR. lra.
Qed.

Definition Rround_he (x : R) : Z :=
  let f := Rfloor x in
  let d := x - IZR f in
  if Rlt_dec d (1/2) then f
  else if Rlt_dec (1/2) d then (f + 1)%Z
  else if Z.even f then f else (f + 1)%Z.

Lemma Rround_he_close x : Rabs (IZR (Rround_he x) - x) <= 1/2.
Proof.
  unfold Rround_he. pose proof (Rfloor_spec x) as [Ha Hb].
  set (f := Rfloor x) in *.
  destruct (Rlt_dec (x - IZR f) (1/2)).
  - apply Rabs_le. lra.
  - destruct (Rlt_dec (1/2) (x - IZR f)).
    + rewrite plus_IZR. apply Rabs_le. lra.
    + destruct (Z.even f); [|rewrite plus_IZR]; apply Rabs_le; lra.
Qed.

Definition Rpow10 (n : Z) : R := powerRZ 10 n.
Lemma Rpow10_pos n : 0 < Rpow10 n.
Proof. unfold Rpow10. apply powerRZ_lt. lra. Qed.

Definition Rround_nd (n : Z) (x : R) : R := IZR (Rround_he (x * Rpow10 n)) / Rpow10 n.

Lemma Rround_nd_close n x : Rabs (Rround_nd n x - x) <= / Rpow10 n / 2.
Proof.
  unfold Rround_nd. pose proof (Rpow10_pos n) as Hp.
  pose proof (Rround_he_close (x * Rpow10 n)) as H.
  replace (IZR (Rround_he (x * Rpow10 n)) / Rpow10 n - x)
    with ((IZR (Rround_he (x * Rpow10 n)) - x * Rpow10 n) * / Rpow10 n) by (field; lra).
  rewrite Rabs_mult. rewrite (Rabs_pos_eq (/ Rpow10 n)).
  2:{ left. apply Rinv_0_lt_compat. exact Hp. }
  assert (0 < / Rpow10 n) by (apply Rinv_0_lt_compat; exact Hp).
  nra.
Qed.

Definition ROps : NumOps := {|
  T := R; zero := 0; one := 1;
  add := Rplus; sub := Rminus; mul := Rmult; div := Rdiv; opp := Ropp;
  eqb := Reqb; leb := Rleb; ltb := Rltb;
  of_Z := IZR;
  of_dec := fun m e => IZR m * Rpow10 e;
  round_nd := Rround_nd;
  round_int := Rround_he
|}.

(* What Python's math functions denote. *)
Definition Ratan2 (y x : R) : R :=
  if Rlt_dec 0 x then atan (y / x)
  else if Rlt_dec x 0 then
         (if Rle_dec 0 y then atan (y / x) + PI else atan (y / x) - PI)
       else if Rlt_dec 0 y then PI / 2
       else if Rlt_dec y 0 then - (PI / 2)
       else 0.
Definition Rhypot (x y : R) : R := sqrt (x * x + y * y).
Definition Rceil (x : R) : Z := (- Rfloor (- x))%Z.

Definition RMath : MathOps ROps :=
  @Build_MathOps ROps cos sin tan sqrt Ratan2 Rhypot Rceil PI.

Lemma Rceil_spec x : IZR (Rceil x) - 1 < x <= IZR (Rceil x).
Proof.
  unfold Rceil. pose proof (Rfloor_spec (- x)) as [Ha Hb].
  rewrite opp_IZR. lra.
Qed.

Close Scope R_scope.

(* ------------------------------------------------------------------ *)
(* Instance over the rationals: used for execution only.               *)

Local Open Scope Q_scope.

Definition Qround_he (x : Q) : Z :=
  let f := Qfloor x in
  let d := x - inject_Z f in
  match Qcompare d (1#2) with
  | Lt => f
  | Gt => (f + 1)%Z
  | Eq => if Z.even f then f else (f + 1)%Z
  end.

Definition Qpow10 (n : Z) : Q := Qpower (10#1) n.

Definition Qround_nd (n : Z) (x : Q) : Q :=
  Qred (inject_Z (Qround_he (x * Qpow10 n)) / Qpow10 n).

Definition Qltb (a b : Q) : bool := match Qcompare a b with Lt => true | _ => false end.

Definition QOps : NumOps := {|
  T := Q; zero := 0; one := 1;
  add := fun a b => Qred (a + b); sub := fun a b => Qred (a - b);
  mul := fun a b => Qred (a * b); div := fun a b => Qred (a / b);
  opp := fun a => Qred (- a);
  eqb := Qeq_bool; leb := Qle_bool; ltb := Qltb;
  of_Z := inject_Z;
  of_dec := fun m e => Qred (inject_Z m * Qpow10 e);
  round_nd := Qround_nd;
  round_int := Qround_he
|}.

Close Scope Q_scope.

(* Error outcomes shared by all models (the exception enum of the correspondence). *)
Inductive err := EValue | EAssert | EZeroDiv | ERecursion | EOther.
Inductive result (A : Type) := Ok (a : A) | Err (e : err).
Arguments Ok {A}. Arguments Err {A}.

Definition bind {A B} (r : result A) (k : A -> result B) : result B :=
  match r with Ok a => k a | Err e => Err e end.

(* generators that may raise: result (list A) *)
Definition rcons {A} (a : A) (r : result (list A)) : result (list A) :=
  match r with Ok l => Ok (a :: l) | Err e => Err e end.
Definition rapp {A} (l0 : list A) (r : result (list A)) : result (list A) :=
  match r with Ok l => Ok (l0 ++ l) | Err e => Err e end.
Definition rbind_app {A} (r0 r : result (list A)) : result (list A) :=
  match r0 with Ok l0 => rapp l0 r | Err e => Err e end.
Fixpoint rflat_map {A B} (f : B -> result (list A)) (l : list B) : result (list A) :=
  match l with [] => Ok [] | b :: t => rbind_app (f b) (rflat_map f t) end.

(* small list helpers used by generated code *)
Fixpoint upd {A} (l : list A) (i : nat) (v : A) : list A :=
  match l, i with
  | [], _ => []
  | _ :: t, O => v :: t
  | h :: t, S i' => h :: upd t i' v
  end.
Definition nth_back {A} (k : nat) (l : list A) (d : A) : A :=
  (* Python l[-k], k >= 1 *)
  nth (length l - k) l d.
Fixpoint zrange_aux (n : nat) (from : Z) : list Z :=
  match n with O => [] | S n' => from :: zrange_aux n' (from + 1)%Z end.
Definition zrange (n : Z) : list Z := zrange_aux (Z.to_nat n) 0%Z.
